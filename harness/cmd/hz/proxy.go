package main

// Spec proxy: plain Go transcriptions of the Def operators of the TLA+ specification (integer
// summaries only). NOT trusted: on every TLC-generated vector of a run the proxy must reproduce the
// summary TLC computed from the definitions, and TLC recomputes P/Q from the logged summary.
// Written independently of the code under test (different loop structure, no shared helpers).

import (
	"math"
	"math/bits"
)

func b2i_(b bool) int {
	if b {
		return 1
	}
	return 0
}

func cycHist(x []bool, m int) []int {
	n := len(x)
	if m == 0 {
		return []int{n}
	}
	h := make([]int, 1<<uint(m))
	for i := 0; i < n; i++ {
		v := 0
		for j := 0; j < m; j++ {
			v = v<<1 | b2i_(x[(i+j)%n])
		}
		h[v]++
	}
	return h
}

func rle(x []bool) (syms []bool, lens []int) {
	for i := 0; i < len(x); {
		j := i
		for j < len(x) && x[j] == x[i] {
			j++
		}
		syms = append(syms, x[i])
		lens = append(lens, j-i)
		i = j
	}
	return
}

// rank over GF(2) of an M x M matrix given as rows of uint64 (M <= 64)
func gf2rank(rows []uint64, M int) int {
	r := 0
	rs := append([]uint64(nil), rows...)
	for col := M - 1; col >= 0 && r < M; col-- {
		piv := -1
		for i := r; i < M; i++ {
			if rs[i]>>uint(col)&1 == 1 {
				piv = i
				break
			}
		}
		if piv < 0 {
			continue
		}
		rs[r], rs[piv] = rs[piv], rs[r]
		for i := 0; i < M; i++ {
			if i != r && rs[i]>>uint(col)&1 == 1 {
				rs[i] ^= rs[r]
			}
		}
		r++
	}
	return r
}

// textbook Berlekamp-Massey on a 0/1 slice (slices sized n+1), independent of utils.go
func bmComplexity(s []bool) int {
	n := len(s)
	c := make([]uint8, n+2)
	b := make([]uint8, n+2)
	c[0], b[0] = 1, 1
	L, m := 0, 1
	for i := 0; i < n; i++ {
		d := b2i_(s[i])
		for k := 1; k <= L; k++ {
			if c[k] == 1 && s[i-k] {
				d ^= 1
			}
		}
		if d == 0 {
			m++
			continue
		}
		t := append([]uint8(nil), c...)
		for k := 0; k+m < len(c); k++ {
			c[k+m] ^= b[k]
		}
		if 2*L <= i {
			L = i + 1 - L
			b = t
			m = 1
		} else {
			m++
		}
	}
	return L
}

func proxyStat(c Call, x []bool) map[string]interface{} {
	n := len(x)
	st := map[string]interface{}{}
	switch c["t"] {
	case "mono":
		o := 0
		for _, v := range x {
			o += b2i_(v)
		}
		st["S"] = 2*o - n
	case "block":
		m := ci(c, "m")
		N := n / m
		ones := make([]int, N)
		for i := 0; i < N; i++ {
			for j := 0; j < m; j++ {
				ones[i] += b2i_(x[i*m+j])
			}
		}
		st["N"] = N
		st["ones"] = ones
	case "poker":
		m := ci(c, "m")
		N := n / m
		h := make([]int, 1<<uint(m))
		for i := 0; i < N; i++ {
			v := 0
			for j := 0; j < m; j++ {
				v = v<<1 | b2i_(x[i*m+j])
			}
			h[v]++
		}
		st["N"] = N
		st["hist"] = h
	case "serial":
		m := ci(c, "m")
		st["h1"] = cycHist(x, m)
		st["h2"] = cycHist(x, m-1)
		st["h3"] = cycHist(x, m-2)
	case "apen":
		m := ci(c, "m")
		st["hm"] = cycHist(x, m)
		st["hm1"] = cycHist(x, m+1)
	case "runs":
		_, lens := rle(x)
		o := 0
		for _, v := range x {
			o += b2i_(v)
		}
		st["vobs"] = len(lens)
		st["ones"] = o
	case "rundist":
		k := 0
		for i := 1; i < 60; i++ {
			if n-i+3 >= 5*(1<<uint(i+2)) {
				k = i
			} else {
				break
			}
		}
		b := make([]int, k)
		g := make([]int, k)
		syms, lens := rle(x)
		for i, l := range lens {
			if l > k {
				l = k
			}
			if syms[i] {
				b[l-1]++
			} else {
				g[l-1]++
			}
		}
		st["k"] = k
		st["b"] = b
		st["g"] = g
	case "longest":
		sym := ci(c, "sym") == 1
		reg, m, K, start := 1, 8, 3, 1
		if n >= 750000 {
			reg, m, K, start = 3, 10000, 6, 10
		} else if n >= 6272 {
			reg, m, K, start = 2, 128, 5, 4
		}
		N := n / m
		nu := make([]int, K+1)
		for i := 0; i < N; i++ {
			syms, lens := rle(x[i*m : (i+1)*m])
			best := 0
			for j, l := range lens {
				if syms[j] == sym && l > best {
					best = l
				}
			}
			if best < start {
				best = start
			}
			if best > start+K {
				best = start + K
			}
			nu[best-start]++
		}
		st["regime"] = reg
		st["N"] = N
		st["nu"] = nu
	case "bd":
		k := ci(c, "k")
		d := append([]bool(nil), x...)
		for r := 0; r < k; r++ {
			nd := make([]bool, len(d)-1)
			for i := range nd {
				nd[i] = d[i] != d[i+1]
			}
			d = nd
		}
		o := 0
		for _, v := range d {
			o += b2i_(v)
		}
		st["S"] = 2*o - (n - k)
	case "ac":
		d := ci(c, "d")
		a := 0
		for i := 0; i+d < n; i++ {
			if x[i] != x[i+d] {
				a++
			}
		}
		st["A"] = a
	case "cusum":
		fw := cb(c, "forward")
		s, z := 0, 0
		for i := 0; i < n; i++ {
			v := x[i]
			if !fw {
				v = x[n-1-i]
			}
			if v {
				s++
			} else {
				s--
			}
			if s > z {
				z = s
			}
			if -s > z {
				z = -s
			}
		}
		st["Z"] = z
	case "rank":
		M := ci(c, "M")
		N := n / (M * M)
		ranks := make([]int, N)
		for t := 0; t < N; t++ {
			rows := make([]uint64, M)
			for i := 0; i < M; i++ {
				for j := 0; j < M; j++ {
					rows[i] = rows[i]<<1 | uint64(b2i_(x[t*M*M+i*M+j]))
				}
			}
			ranks[t] = gf2rank(rows, M)
		}
		st["N"] = N
		st["ranks"] = ranks
	case "lc":
		m := ci(c, "m")
		N := n / m
		Ls := make([]int, N)
		for t := 0; t < N; t++ {
			Ls[t] = bmComplexity(x[t*m : (t+1)*m])
		}
		st["N"] = N
		st["Ls"] = Ls
	case "maurer":
		L, Q := 7, 1280
		K := n/L - Q
		last := make([]int, 1<<uint(L))
		dist := map[int]int{}
		for i := 1; i <= Q+K; i++ {
			v := 0
			for j := 0; j < L; j++ {
				v = v<<1 | b2i_(x[(i-1)*L+j])
			}
			if i > Q {
				dist[i-last[v]]++
			}
			last[v] = i
		}
		ds := make([][2]int, 0, len(dist))
		for d, cnt := range dist {
			ds = append(ds, [2]int{d, cnt})
		}
		// deterministic order
		for i := 1; i < len(ds); i++ {
			for j := i; j > 0 && ds[j][0] < ds[j-1][0]; j-- {
				ds[j], ds[j-1] = ds[j-1], ds[j]
			}
		}
		st["K"] = K
		st["dist"] = ds
	case "dft":
		lo, amb := proxyDftCount(x)
		st["lo"] = lo
		st["amb"] = amb
	}
	_ = bits.Len
	return st
}

// independent recursive radix-2 FFT (decimation in time, out of place) for the DFT-test proxy
func recFFT(a []complex128) []complex128 {
	n := len(a)
	if n == 1 {
		return []complex128{a[0]}
	}
	ev := make([]complex128, n/2)
	od := make([]complex128, n/2)
	for i := 0; i < n/2; i++ {
		ev[i] = a[2*i]
		od[i] = a[2*i+1]
	}
	E := recFFT(ev)
	O := recFFT(od)
	out := make([]complex128, n)
	for k := 0; k < n/2; k++ {
		ang := -2 * math.Pi * float64(k) / float64(n)
		w := complex(math.Cos(ang), math.Sin(ang))
		out[k] = E[k] + w*O[k]
		out[k+n/2] = E[k] - w*O[k]
	}
	return out
}

func proxyDftCount(x []bool) (int, int) {
	n := len(x)
	N := 2
	for N < n {
		N *= 2
	}
	a := make([]complex128, N)
	for i, v := range x {
		if v {
			a[i] = 1
		} else {
			a[i] = -1
		}
	}
	X := recFFT(a)
	t2 := 2.995732274 * float64(n)
	lo, amb := 0, 0
	for k := 0; k < n/2-1; k++ {
		m2 := real(X[k])*real(X[k]) + imag(X[k])*imag(X[k])
		switch {
		case m2 < t2*(1-1e-9):
			lo++
		case m2 > t2*(1+1e-9):
		default:
			amb++
		}
	}
	return lo, amb
}
