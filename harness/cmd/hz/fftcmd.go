package main

// Channel R/T driver for the fft package (C19): constructor limits, transforms of TLC-generated
// integer vectors, closed-form families (impulse, tone) at large N with sampled bins, inverse
// round trips, and the wrong-length refusal.

import (
	"encoding/json"
	"fmt"
	"math"
	"math/cmplx"
	"math/rand"
	"time"

	"github.com/Trisia/randomness/fft"
)

func init() { register("fft", fftCmd) }

// preHistory puts the transformer through an earlier call; for "keep" it returns a check to run after the judged call
func preHistory(f fft.FFT, j fftJob) func() bool {
	switch j.Pre {
	case "refusedinv", "refusedfwd":
		func() {
			defer func() { recover() }()
			bad := make([]complex128, f.N+1)
			if j.Pre == "refusedinv" {
				f.Inverse(bad)
			} else {
				f.Transform(bad)
			}
		}()
	case "keep":
		x0 := make([]complex128, f.N)
		for i := range x0 {
			x0[i] = complex(float64((i*7+3)%11)-5, float64((i*5+1)%7)-3)
		}
		y0 := f.Transform(x0)
		cp := append([]complex128(nil), y0...)
		return func() bool {
			for i := range cp {
				if y0[i] != cp[i] {
					return false
				}
			}
			return true
		}
	}
	return func() bool { return true }
}

func ctorLen(j fftJob) int {
	if j.Ctor > 0 {
		return j.Ctor
	}
	return j.N
}

type fftJob struct {
	ID   int    `json:"id"`
	Kind string `json:"kind"` // new | vec | impulse | tone | inv | wronglen
	N    int    `json:"N"`
	X    []int  `json:"x"`
	J    int    `json:"j"`
	Len  int    `json:"len"`
	Seed int64  `json:"seed"`
	Ks   []int  `json:"ks"`
	// Pre: what this transformer has been through before the judged call: "" | "refusedinv" (an Inverse on a slice of the
	// wrong length, refused) | "refusedfwd" | "keep" (an earlier Transform whose returned spectrum the caller still holds)
	Pre  string `json:"pre"`
	Ctor int    `json:"ctor"` // > 0: the transformer is requested for this length (any length whose largest power of two below it is N)
}

func fftCmd(job []byte, out *Out) error {
	var js struct {
		Jobs []fftJob `json:"jobs"`
	}
	if err := json.Unmarshal(job, &js); err != nil {
		return err
	}
	hangs := 0
	for _, j := range js.Jobs {
		res := map[string]interface{}{"id": j.ID, "ev": "fft", "kind": j.Kind, "N": j.N, "j": j.J, "len": j.Len}
		if hangs >= 2 {
			res["skipped"] = true
			out.Emit(res)
			continue
		}
		done := make(chan struct{})
		j := j
		go func() {
			defer close(done)
			runFFTJob(j, res)
		}()
		select {
		case <-done:
		case <-time.After(90 * time.Second):
			// the call never came back (no fft operation on <= 2^27 points takes this long): reported, not waited for
			hangs++
			out.Emit(map[string]interface{}{"id": j.ID, "ev": "fft", "kind": j.Kind, "N": j.N, "j": j.J, "len": j.Len, "hang": true})
			continue
		}
		out.Emit(res)
	}
	return nil
}

func runFFTJob(j fftJob, res map[string]interface{}) {
	{
		func() {
			defer func() {
				if p := recover(); p != nil {
					res["panic"] = fmt.Sprint(p)
				}
			}()
			switch j.Kind {
			case "new":
				f, err := fft.New(j.N)
				res["err"] = err != nil
				res["n"] = f.N
			case "vec":
				f, err := fft.New(j.N)
				if err != nil {
					res["err"] = true
					return
				}
				x := make([]complex128, j.N)
				for i, v := range j.X {
					x[i] = complex(float64(v), 0)
				}
				y := f.Transform(x)
				re := make([]string, j.N)
				im := make([]string, j.N)
				for i, v := range y {
					re[i], im[i] = F(real(v)), F(imag(v))
				}
				res["re"], res["im"] = re, im
				res["samebuf"] = &y[0] == &x[0]
			case "impulse", "tone":
				f, err := fft.New(ctorLen(j))
				if err != nil {
					res["err"] = true
					return
				}
				if f.N != j.N {
					panic(fmt.Sprintf("New(%d) built a transformer of length %d, expected %d", ctorLen(j), f.N, j.N))
				}
				keptOK := preHistory(f, j)
				defer func() { res["kept"] = keptOK() }()
				N := j.N
				x := make([]complex128, N)
				if j.Kind == "impulse" {
					x[j.J] = 1
				} else {
					for t := 0; t < N; t++ {
						ang := 2 * math.Pi * float64((int64(j.J)*int64(t))%int64(N)) / float64(N)
						x[t] = complex(math.Cos(ang), math.Sin(ang))
					}
				}
				y := f.Transform(x)
				// untrusted float screen over all bins
				maxerr := 0.0
				for k := 0; k < N; k++ {
					var want complex128
					if j.Kind == "impulse" {
						ang := -2 * math.Pi * float64((int64(j.J)*int64(k))%int64(N)) / float64(N)
						want = complex(math.Cos(ang), math.Sin(ang))
					} else if k == j.J {
						want = complex(float64(N), 0)
					}
					if e := cmplx.Abs(y[k] - want); e > maxerr {
						maxerr = e
					}
				}
				res["maxerr"] = F(maxerr)
				samples := [][]interface{}{}
				for _, k := range j.Ks {
					if k >= 0 && k < N {
						samples = append(samples, []interface{}{k, F(real(y[k])), F(imag(y[k]))})
					}
				}
				res["samples"] = samples
			case "inv":
				f, err := fft.New(ctorLen(j))
				if err != nil {
					res["err"] = true
					return
				}
				if f.N != j.N {
					panic(fmt.Sprintf("New(%d) built a transformer of length %d, expected %d", ctorLen(j), f.N, j.N))
				}
				keptOK := preHistory(f, j)
				defer func() { res["kept"] = keptOK() }()
				rng := rand.New(rand.NewSource(j.Seed))
				x := make([]complex128, j.N)
				norm := 0.0
				for i := range x {
					x[i] = complex(rng.NormFloat64(), rng.NormFloat64())
					norm += real(x[i])*real(x[i]) + imag(x[i])*imag(x[i])
				}
				orig := append([]complex128(nil), x...)
				y := f.Inverse(f.Transform(x))
				md := 0.0
				for i := range y {
					if e := cmplx.Abs(y[i] - orig[i]); e > md {
						md = e
					}
				}
				res["maxdiff"] = F(md)
				res["norm"] = F(math.Sqrt(norm))
			case "wronglen":
				f, err := fft.New(j.N)
				if err != nil {
					res["err"] = true
					return
				}
				x := make([]complex128, j.Len)
				f.Transform(x)
				res["returned"] = true
			}
		}()
	}
}
