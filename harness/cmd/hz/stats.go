package main

// Channel R/T driver for the fifteen statistical tests: replays TLC-generated vectors into every entry
// point of a test (bit-oriented Proto/Test functions, byte-oriented functions, registry runners) and
// records what the real code returns. Also hosts the "spec proxy": a plain Go transcription of the
// Def operators (counting only, never special functions) used to summarise large inputs for TLC.

import (
	"encoding/json"
	"fmt"
	"math"
	"math/rand"
	"runtime"
	"sync"

	"github.com/Trisia/randomness"
)

func init() {
	register("stats-replay", statsReplay)
	register("stats-trace", statsTrace)
}

type Call map[string]interface{}

type Vec struct {
	ID     int             `json:"id"`
	Bits   json.RawMessage `json:"bits"`
	Word   []int           `json:"word"`
	Repeat int             `json:"repeat"`
	Calls  []Call          `json:"calls"`
}

func parseBits(raw json.RawMessage) ([]bool, error) {
	var ints []int
	if err := json.Unmarshal(raw, &ints); err == nil {
		b := make([]bool, len(ints))
		for i, v := range ints {
			b[i] = v != 0
		}
		return b, nil
	}
	var s string
	if err := json.Unmarshal(raw, &s); err != nil {
		return nil, err
	}
	b := make([]bool, len(s))
	for i := range s {
		b[i] = s[i] == '1'
	}
	return b, nil
}

func bitsToBytes(b []bool) []byte {
	out := make([]byte, len(b)/8)
	for i := range out {
		var v byte
		for j := 0; j < 8; j++ {
			v <<= 1
			if b[8*i+j] {
				v |= 1
			}
		}
		out[i] = v
	}
	return out
}

func ci(c Call, k string) int {
	switch v := c[k].(type) {
	case float64:
		return int(v)
	case int:
		return v
	}
	return 0
}

func cb(c Call, k string) bool {
	v, _ := c[k].(bool)
	return v
}

type entryRes struct {
	Entry  string `json:"entry"`
	P      string `json:"P"`
	Q      string `json:"Q"`
	P2     string `json:"P2,omitempty"`
	Q2     string `json:"Q2,omitempty"`
	PB     string `json:"Pb"`
	QB     string `json:"Qb"`
	Panic  string `json:"panic,omitempty"`
	Mut    bool   `json:"mutated,omitempty"`
	NonDet bool   `json:"nondet,omitempty"`
	Pass   *bool  `json:"pass,omitempty"`
	Name   string `json:"name,omitempty"`
}

// run2 calls f twice on private snapshots and reports panic / mutation / nondeterminism.
func runBits(entry string, bits []bool, f func([]bool) (float64, float64, float64, float64, bool)) entryRes {
	r := entryRes{Entry: entry}
	func() {
		defer func() {
			if p := recover(); p != nil {
				r.Panic = fmt.Sprint(p)
			}
		}()
		snap := append([]bool(nil), bits...)
		// hand the test a window with spare capacity (as a caller slicing one long capture would): the bits
		// behind the window belong to the caller too and must stay untouched
		guard := guardBits(bits)
		win := guard[:len(bits):len(guard)]
		p, q, p2, q2, four := f(win)
		if !guardBitsIntact(guard, len(bits)) {
			r.Mut = true
		}
		for i := range bits {
			if win[i] != snap[i] {
				r.Mut = true
			}
		}
		pa, qa, _, _, _ := f(bits)
		if math.Float64bits(pa) != math.Float64bits(p) || math.Float64bits(qa) != math.Float64bits(q) {
			r.NonDet = true
		}
		r.P, r.Q, r.PB, r.QB = F(p), F(q), Bits(p), Bits(q)
		if four {
			r.P2, r.Q2 = F(p2), F(q2)
		}
	}()
	return r
}

func runBytes(entry string, data []byte, f func([]byte) (float64, float64, float64, float64, bool)) entryRes {
	r := entryRes{Entry: entry}
	func() {
		defer func() {
			if p := recover(); p != nil {
				r.Panic = fmt.Sprint(p)
			}
		}()
		snap := append([]byte(nil), data...)
		guard := make([]byte, len(data)+32)
		copy(guard, data)
		for i := len(data); i < len(guard); i++ {
			guard[i] = byte(0xA5 ^ i)
		}
		win := guard[:len(data):len(guard)]
		p, q, p2, q2, four := f(win)
		for i := len(data); i < len(guard); i++ {
			if guard[i] != byte(0xA5^i) {
				r.Mut = true
			}
		}
		for i := range data {
			if win[i] != snap[i] {
				r.Mut = true
			}
		}
		pa, qa, _, _, _ := f(data)
		if math.Float64bits(pa) != math.Float64bits(p) || math.Float64bits(qa) != math.Float64bits(q) {
			r.NonDet = true
		}
		r.P, r.Q, r.PB, r.QB = F(p), F(q), Bits(p), Bits(q)
		if four {
			r.P2, r.Q2 = F(p2), F(q2)
		}
	}()
	return r
}

func guardBits(bits []bool) []bool {
	g := make([]bool, len(bits)+64)
	copy(g, bits)
	for i := len(bits); i < len(g); i++ {
		g[i] = (i*7+3)%5 < 2
	}
	return g
}

func guardBitsIntact(g []bool, n int) bool {
	for i := n; i < len(g); i++ {
		if g[i] != ((i*7+3)%5 < 2) {
			return false
		}
	}
	return true
}

func two(f func([]bool) (float64, float64)) func([]bool) (float64, float64, float64, float64, bool) {
	return func(b []bool) (float64, float64, float64, float64, bool) { p, q := f(b); return p, q, 0, 0, false }
}
func twoB(f func([]byte) (float64, float64)) func([]byte) (float64, float64, float64, float64, bool) {
	return func(b []byte) (float64, float64, float64, float64, bool) { p, q := f(b); return p, q, 0, 0, false }
}
func runner(f randomness.TestFunc) func([]byte) (float64, float64, float64, float64, bool) {
	return func(b []byte) (float64, float64, float64, float64, bool) {
		r := f(b)
		return r.P, r.Q, r.P2, r.Q2, r.P2 != 0 || r.Q2 != 0
	}
}

// entries lists every exported way to run test c.t with the call's parameters on these bits.
func entries(c Call, bits []bool) []entryRes {
	n := len(bits)
	whole := n%8 == 0 && n > 0
	var data []byte
	if whole {
		data = bitsToBytes(bits)
	}
	var out []entryRes
	switch c["t"] {
	case "mono":
		out = append(out, runBits("MonoBitFrequencyTest", bits, two(randomness.MonoBitFrequencyTest)))
		if whole {
			out = append(out, runBytes("MonoBitFrequencyTestBytes", data, twoB(randomness.MonoBitFrequencyTestBytes)))
			out = append(out, runBytes("MonoBitFrequency", data, runner(randomness.MonoBitFrequency)))
		}
	case "block":
		m := ci(c, "m")
		out = append(out, runBits("FrequencyWithinBlockProto", bits, two(func(b []bool) (float64, float64) { return randomness.FrequencyWithinBlockProto(b, m) })))
		if whole {
			out = append(out, runBytes("FrequencyWithinBlockTestBytes", data, twoB(func(d []byte) (float64, float64) { return randomness.FrequencyWithinBlockTestBytes(d, m) })))
		}
		if cb(c, "auto") {
			out = append(out, runBits("FrequencyWithinBlockTest", bits, two(randomness.FrequencyWithinBlockTest)))
			if whole {
				out = append(out, runBytes("FrequencyWithinBlock", data, runner(randomness.FrequencyWithinBlock)))
			}
		}
	case "poker":
		m := ci(c, "m")
		out = append(out, runBits("PokerProto", bits, two(func(b []bool) (float64, float64) { return randomness.PokerProto(b, m) })))
		if whole {
			out = append(out, runBytes("PokerTestBytes", data, twoB(func(d []byte) (float64, float64) { return randomness.PokerTestBytes(d, m) })))
		}
		if m == 8 {
			out = append(out, runBits("PokerTest", bits, two(randomness.PokerTest)))
			if whole {
				out = append(out, runBytes("Poker", data, runner(randomness.Poker)))
			}
		}
	case "serial":
		m := ci(c, "m")
		out = append(out, runBits("OverlappingTemplateMatchingProto", bits, func(b []bool) (float64, float64, float64, float64, bool) {
			p1, p2, q1, q2 := randomness.OverlappingTemplateMatchingProto(b, m)
			return p1, q1, p2, q2, true
		}))
		if whole {
			out = append(out, runBytes("OverlappingTemplateMatchingTestBytes", data, func(d []byte) (float64, float64, float64, float64, bool) {
				p1, p2, q1, q2 := randomness.OverlappingTemplateMatchingTestBytes(d, m)
				return p1, q1, p2, q2, true
			}))
		}
		if m == 5 {
			out = append(out, runBits("OverlappingTemplateMatchingTest", bits, func(b []bool) (float64, float64, float64, float64, bool) {
				p1, p2, q1, q2 := randomness.OverlappingTemplateMatchingTest(b)
				return p1, q1, p2, q2, true
			}))
			if whole {
				out = append(out, runBytes("OverlappingTemplateMatching", data, func(d []byte) (float64, float64, float64, float64, bool) {
					r := randomness.OverlappingTemplateMatching(d)
					return r.P, r.Q, r.P2, r.Q2, true
				}))
			}
		}
	case "apen":
		m := ci(c, "m")
		out = append(out, runBits("ApproximateEntropyProto", bits, two(func(b []bool) (float64, float64) { return randomness.ApproximateEntropyProto(b, m) })))
		if whole {
			out = append(out, runBytes("ApproximateEntropyTestBytes", data, twoB(func(d []byte) (float64, float64) { return randomness.ApproximateEntropyTestBytes(d, m) })))
		}
		if m == 5 {
			out = append(out, runBits("ApproximateEntropyTest", bits, two(randomness.ApproximateEntropyTest)))
			if whole {
				out = append(out, runBytes("ApproximateEntropy", data, runner(randomness.ApproximateEntropy)))
			}
		}
	case "runs":
		out = append(out, runBits("RunsTest", bits, two(randomness.RunsTest)))
		if whole {
			out = append(out, runBytes("RunsTestBytes", data, twoB(randomness.RunsTestBytes)))
			out = append(out, runBytes("Runs", data, runner(randomness.Runs)))
		}
	case "rundist":
		out = append(out, runBits("RunsDistributionTest", bits, two(randomness.RunsDistributionTest)))
		if whole {
			out = append(out, runBytes("RunsDistributionTestBytes", data, twoB(randomness.RunsDistributionTestBytes)))
			out = append(out, runBytes("RunsDistribution", data, runner(randomness.RunsDistribution)))
		}
	case "longest":
		one := ci(c, "sym") == 1
		out = append(out, runBits("LongestRunOfOnesInABlockProto", bits, two(func(b []bool) (float64, float64) { return randomness.LongestRunOfOnesInABlockProto(b, one) })))
		out = append(out, runBits("LongestRunOfOnesInABlockTest", bits, two(func(b []bool) (float64, float64) { return randomness.LongestRunOfOnesInABlockTest(b, one) })))
		if whole {
			out = append(out, runBytes("LongestRunOfOnesInABlockTestBytes", data, twoB(func(d []byte) (float64, float64) { return randomness.LongestRunOfOnesInABlockTestBytes(d, one) })))
			if one {
				out = append(out, runBytes("LongestRunOfOnesInABlock", data, runner(randomness.LongestRunOfOnesInABlock)))
			}
		}
	case "bd":
		k := ci(c, "k")
		out = append(out, runBits("BinaryDerivativeProto", bits, two(func(b []bool) (float64, float64) { return randomness.BinaryDerivativeProto(b, k) })))
		out = append(out, runBits("BinaryDerivativeTest", bits, two(func(b []bool) (float64, float64) { return randomness.BinaryDerivativeTest(b, k) })))
		if whole {
			out = append(out, runBytes("BinaryDerivativeTestBytes", data, twoB(func(d []byte) (float64, float64) { return randomness.BinaryDerivativeTestBytes(d, k) })))
			if k == 7 {
				out = append(out, runBytes("BinaryDerivative", data, runner(randomness.BinaryDerivative)))
			}
		}
	case "ac":
		d := ci(c, "d")
		out = append(out, runBits("AutocorrelationProto", bits, two(func(b []bool) (float64, float64) { return randomness.AutocorrelationProto(b, d) })))
		out = append(out, runBits("AutocorrelationTest", bits, two(func(b []bool) (float64, float64) { return randomness.AutocorrelationTest(b, d) })))
		if whole {
			out = append(out, runBytes("AutocorrelationTestBytes", data, twoB(func(x []byte) (float64, float64) { return randomness.AutocorrelationTestBytes(x, d) })))
			if d == 16 {
				out = append(out, runBytes("Autocorrelation", data, runner(randomness.Autocorrelation)))
			}
		}
	case "cusum":
		fw := cb(c, "forward")
		out = append(out, runBits("CumulativeTest", bits, two(func(b []bool) (float64, float64) { return randomness.CumulativeTest(b, fw) })))
		if whole {
			out = append(out, runBytes("CumulativeTestBytes", data, twoB(func(d []byte) (float64, float64) { return randomness.CumulativeTestBytes(d, fw) })))
			if fw {
				out = append(out, runBytes("Cumulative", data, runner(randomness.Cumulative)))
			}
		}
	case "rank":
		M := ci(c, "M")
		out = append(out, runBits("MatrixRankProto", bits, two(func(b []bool) (float64, float64) { return randomness.MatrixRankProto(b, M, M) })))
		if M == 32 {
			out = append(out, runBits("MatrixRankTest", bits, two(randomness.MatrixRankTest)))
			if whole {
				out = append(out, runBytes("MatrixRankTestBytes", data, twoB(func(d []byte) (float64, float64) { return randomness.MatrixRankTestBytes(d, 32, 32) })))
				out = append(out, runBytes("MatrixRank", data, runner(randomness.MatrixRank)))
			}
		}
	case "lc":
		m := ci(c, "m")
		out = append(out, runBits("LinearComplexityProto", bits, two(func(b []bool) (float64, float64) { return randomness.LinearComplexityProto(b, m) })))
		if whole {
			out = append(out, runBytes("LinearComplexityTestBytes", data, twoB(func(d []byte) (float64, float64) { return randomness.LinearComplexityTestBytes(d, m) })))
		}
		if m == 500 {
			out = append(out, runBits("LinearComplexityTest", bits, two(randomness.LinearComplexityTest)))
			if whole {
				out = append(out, runBytes("LinearComplexity", data, runner(randomness.LinearComplexity)))
			}
		}
	case "maurer":
		out = append(out, runBits("MaurerUniversalTest", bits, two(randomness.MaurerUniversalTest)))
		if whole {
			out = append(out, runBytes("MaurerUniversalTestBytes", data, twoB(randomness.MaurerUniversalTestBytes)))
			out = append(out, runBytes("MaurerUniversal", data, runner(randomness.MaurerUniversal)))
		}
	case "dft":
		out = append(out, runBits("DiscreteFourierTransformTest", bits, two(randomness.DiscreteFourierTransformTest)))
		if whole {
			out = append(out, runBytes("DiscreteFourierTransformTestBytes", data, twoB(randomness.DiscreteFourierTransformTestBytes)))
			out = append(out, runBytes("DiscreteFourierTransform", data, runner(randomness.DiscreteFourierTransform)))
		}
	}
	return out
}

// job: {"vectors":[{"id":..,"bits":[..],"calls":[{...}]}], "proxy": true}
func statsReplay(job []byte, out *Out) error {
	var j struct {
		Vectors []Vec `json:"vectors"`
		Proxy   bool  `json:"proxy"`
	}
	if err := json.Unmarshal(job, &j); err != nil {
		return err
	}
	type key struct{ id, call int }
	first := map[key][]entryRes{}
	var order []map[string]interface{}
	materialise := func(v *Vec) ([]bool, error) {
		bits, err := parseBits(v.Bits)
		if err != nil {
			return nil, err
		}
		if v.Repeat > 0 && len(v.Word) > 0 {
			bits = make([]bool, v.Repeat)
			for i := range bits {
				bits[i] = v.Word[i%len(v.Word)] != 0
			}
		}
		return bits, nil
	}
	for vi := range j.Vectors {
		v := &j.Vectors[vi]
		bits, err := materialise(v)
		if err != nil {
			return err
		}
		for ci_, c := range v.Calls {
			ents := entries(c, bits)
			first[key{v.ID, ci_}] = ents
			res := map[string]interface{}{"id": v.ID, "call": ci_, "t": c["t"], "entries": ents}
			if j.Proxy {
				func() {
					defer func() {
						if p := recover(); p != nil {
							res["proxy_panic"] = fmt.Sprint(p)
						}
					}()
					res["proxy"] = proxyStat(c, bits)
				}()
			}
			order = append(order, res)
		}
	}
	// call histories: the same calls once more in the opposite order within this process; a result that depends on what
	// was called before (a cache, a pool, a lazily built table) differs bit-wise from the first pass
	// ... and with a different number of processors visible to the runtime (seven instead of all): a result must not depend
	// on how many goroutines a parallelised implementation decides to start
	prevProcs := runtime.GOMAXPROCS(7)
	defer runtime.GOMAXPROCS(prevProcs)
	for vi := len(j.Vectors) - 1; vi >= 0; vi-- {
		v := &j.Vectors[vi]
		if len(j.Vectors) > 1 && len(v.Bits) > 400000 {
			continue // very large inputs are replayed once
		}
		bits, err := materialise(v)
		if err != nil {
			return err
		}
		for ci_ := len(v.Calls) - 1; ci_ >= 0; ci_-- {
			again := entries(v.Calls[ci_], bits)
			f := first[key{v.ID, ci_}]
			for k := range f {
				if k < len(again) && (again[k].PB != f[k].PB || again[k].QB != f[k].QB || again[k].Panic != f[k].Panic) {
					f[k].NonDet = true
				}
			}
		}
	}
	runtime.GOMAXPROCS(prevProcs)
	// overlapping calls: the same calls again from sixteen goroutines at once (as the parallel workflows and the batch
	// detector call them); a result that depends on what other goroutines are doing differs bit-wise from the first pass
	type unit struct {
		vi, ci int
	}
	var units []unit
	for vi := range j.Vectors {
		if len(j.Vectors) > 1 && len(j.Vectors[vi].Bits) > 400000 {
			continue
		}
		for ci_ := range j.Vectors[vi].Calls {
			units = append(units, unit{vi, ci_})
		}
	}
	if len(units) > 1 {
		var wg sync.WaitGroup
		var mu sync.Mutex
		next := 0
		// every unit is taken up by several goroutines in close succession (rounds), so that calls of the same test with
		// the same parameters overlap even when a single call lasts microseconds
		const rounds = 4
		start := make(chan struct{})
		for g := 0; g < 16; g++ {
			wg.Add(1)
			go func() {
				defer wg.Done()
				<-start
				for {
					mu.Lock()
					k := next
					next++
					mu.Unlock()
					if k >= rounds*len(units) {
						return
					}
					u := units[k/rounds]
					v := &j.Vectors[u.vi]
					bits, err := materialise(v)
					if err != nil {
						continue
					}
					again := entries(v.Calls[u.ci], bits)
					mu.Lock()
					f := first[key{v.ID, u.ci}]
					for k := range f {
						if k < len(again) && (again[k].PB != f[k].PB || again[k].QB != f[k].QB || again[k].Panic != f[k].Panic) {
							f[k].NonDet = true
						}
					}
					mu.Unlock()
				}
			}()
		}
		close(start)
		wg.Wait()
	}
	for _, res := range order {
		out.Emit(res)
	}
	return nil
}

// ---------------------------------------------------------------- large seeded inputs (L3)
func genBits(mode string, n int, seed int64) []bool {
	rng := rand.New(rand.NewSource(seed))
	b := make([]bool, n)
	switch mode {
	case "const0":
	case "const1":
		for i := range b {
			b[i] = true
		}
	case "alt":
		for i := range b {
			b[i] = i%2 == 1
		}
	case "bias":
		th := 0.45 + 0.1*rng.Float64()
		for i := range b {
			b[i] = rng.Float64() < th
		}
	case "heavy":
		th := []float64{0.01, 0.1, 0.9, 0.99}[rng.Intn(4)]
		for i := range b {
			b[i] = rng.Float64() < th
		}
	case "dombyte": // one byte value dominates: its count lands just above 2^16 (where a 16-bit counter wraps to an
		// inconspicuous value) when the input has more than 65536 bytes, else 70 % of the bytes
		frac := 0.7
		if nb := n / 8; nb > 70000 {
			frac = (65536.0 + float64(nb)/256.0) / float64(nb)
		}
		for i := 0; i+8 <= n; i += 8 {
			v := byte(rng.Intn(256))
			if rng.Float64() < frac {
				v = 0xA5
			}
			for k := 0; k < 8; k++ {
				b[i+k] = v&(0x80>>uint(k)) != 0
			}
		}
	case "lateburst": // Maurer: the initialisation segment (1280 blocks) holds a single 7-bit value; the 127 others all occur
		// for the first time within one window right after it (distance = block index, about 10.3 bits each), then zeros again
		for q := 0; q+7 <= n; q += 7 {
			blk := q / 7
			v := 0
			if blk >= 1280 && blk < 1280+127 {
				v = blk - 1280 + 1
			}
			for k := 0; k < 7; k++ {
				b[q+k] = v&(0x40>>uint(k)) != 0
			}
		}
	case "gaps", "gapslong": // uniform 7-bit blocks with planted recurrence distances: for each d in the list some block value occurs at
		// block p and at block p-d and nowhere in between (powers of two and their neighbours, and a few long gaps)
		for i := range b {
			b[i] = rng.Intn(2) == 1
		}
		nb := n / 7
		get := func(q int) int {
			v := 0
			for k := 0; k < 7; k++ {
				v <<= 1
				if b[7*q+k] {
					v |= 1
				}
			}
			return v
		}
		set := func(q, v int) {
			for k := 0; k < 7; k++ {
				b[7*q+k] = v&(0x40>>uint(k)) != 0
			}
		}
		ds := []int{}
		if mode == "gapslong" {
			// one long gap per input (a value missing from a long window biases the statistic; one window keeps P moderate)
			ds = append(ds, []int{65536, 100000, 32768, 65535, 65537}[int(seed%5+5)%5])
		} else {
			for e := 6; e <= 12; e++ {
				ds = append(ds, 1<<e-1, 1<<e, 1<<e+1)
			}
			ds = append(ds, 1000, 3000, 8192, 16384)
		}
		for i, d := range ds {
			v := i % 120
			p := nb - 1 - 37*i
			if p-d < 0 || p < 0 {
				continue
			}
			set(p, v)
			set(p-d, v)
			for q := p - d + 1; q < p; q++ {
				if get(q) == v {
					// any value that is not one of the planted ones (keeps the block distribution close to uniform, so
					// that the P-value stays moderate and a single wrong term is visible)
					set(q, len(ds)+rng.Intn(128-len(ds)))
				}
			}
		}
	case "runsbias": // sticky source: repeats the previous bit with probability 0.55
		cur := rng.Intn(2) == 1
		for i := range b {
			if rng.Float64() >= 0.55 {
				cur = !cur
			}
			b[i] = cur
		}
	case "step":
		t := rng.Intn(n)
		for i := range b {
			b[i] = i > t
		}
	case "onehot":
		b[rng.Intn(n)] = true
	case "periodic":
		w := 2 + rng.Intn(61)
		word := make([]bool, w)
		for i := range word {
			word[i] = rng.Intn(2) == 1
		}
		for i := range b {
			b[i] = word[i%w]
			if rng.Intn(997) == 0 {
				b[i] = !b[i]
			}
		}
	case "halves":
		for i := range b {
			b[i] = i >= n/2
		}
	default: // uniform
		for i := 0; i < n; i += 63 {
			x := rng.Int63()
			for k := 0; k < 63 && i+k < n; k++ {
				b[i+k] = x&(1<<uint(k)) != 0
			}
		}
	}
	return b
}

// job: {"inputs":[{"id":..,"mode":..,"n":..,"seed":..,"calls":[{"t":..,params}]}]}
// emits for every call one event with the proxy summary (big numbers as strings) and the real results.
func statsTrace(job []byte, out *Out) error {
	var j struct {
		Inputs []struct {
			ID    int    `json:"id"`
			Mode  string `json:"mode"`
			N     int    `json:"n"`
			Seed  int64  `json:"seed"`
			Calls []Call `json:"calls"`
		} `json:"inputs"`
	}
	if err := json.Unmarshal(job, &j); err != nil {
		return err
	}
	type key struct{ id, call int }
	first := map[key][]entryRes{}
	var order []map[string]interface{}
	for _, in := range j.Inputs {
		bits := genBits(in.Mode, in.N, in.Seed)
		for ci_, c := range in.Calls {
			ev := map[string]interface{}{"ev": "stat", "id": in.ID, "call": ci_, "n": in.N, "mode": in.Mode, "seed": in.Seed}
			for k, v := range c {
				ev[k] = v
			}
			func() {
				defer func() {
					if p := recover(); p != nil {
						ev["proxy_panic"] = fmt.Sprint(p)
					}
				}()
				ev["stat"] = proxyStat(c, bits)
			}()
			ents := entries(c, bits)
			first[key{in.ID, ci_}] = ents
			ev["entries"] = ents
			order = append(order, ev)
		}
	}
	// call histories (as in stats-replay): the inputs of this process once more in the opposite order, so every length is
	// also evaluated after a longer and after a shorter one; a result that depends on earlier calls differs bit-wise
	{
		// (with three, then seven processors visible to the runtime instead of all of them)
		prev := runtime.GOMAXPROCS(3)
		defer runtime.GOMAXPROCS(prev)
		for ii := len(j.Inputs) - 1; ii >= 0; ii-- {
			if ii%2 == 1 {
				runtime.GOMAXPROCS(7)
			} else {
				runtime.GOMAXPROCS(3)
			}
			in := j.Inputs[ii]
			bits := genBits(in.Mode, in.N, in.Seed)
			for ci_ := len(in.Calls) - 1; ci_ >= 0; ci_-- {
				again := entries(in.Calls[ci_], bits)
				f := first[key{in.ID, ci_}]
				for k := range f {
					if k < len(again) && (again[k].PB != f[k].PB || again[k].QB != f[k].QB || again[k].Panic != f[k].Panic) {
						f[k].NonDet = true
					}
				}
			}
		}
	}
	for _, ev := range order {
		out.Emit(ev)
	}
	return nil
}
