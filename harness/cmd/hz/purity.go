package main

// C18 driver: realises TLC-generated execution plans: G goroutines released by a start barrier,
// each calling a test (or a round function) on a shared or private input; results are compared
// bit for bit with the solitary results; inputs are hashed before and after; a probe input checks
// that package-level tables still give the same answers. Run normally and under -race.

import (
	"crypto/sha256"
	"encoding/json"
	"fmt"
	"runtime"
	"sync"

	"github.com/Trisia/randomness"
	"github.com/Trisia/randomness/detect"
)

func init() { register("concurrent", concurrentCmd) }

type task struct {
	Test   int  `json:"test"`
	Shared bool `json:"shared"`
	Input  int  `json:"input"`
}

func runTask(test int, data []byte) string {
	switch {
	case test >= 1 && test <= 15:
		r := randomness.TestMethodArr[test-1].Runner(data)
		return Bits(r.P) + Bits(r.Q) + Bits(r.P2) + Bits(r.Q2) + fmt.Sprint(r.Pass)
	case test == 16:
		s := ""
		for _, r := range detect.Round15(data) {
			s += Bits(r.P) + Bits(r.Q) + fmt.Sprint(r.Pass)
		}
		return s
	default:
		s := ""
		for _, r := range detect.Round12(data) {
			s += Bits(r.P) + Bits(r.Q) + fmt.Sprint(r.Pass)
		}
		return s
	}
}

// bit-oriented variants share code paths that the byte runners do not (Proto functions on []bool)
func runBitsTask(test int, bits []bool) string {
	if test < 1 || test > 15 {
		return ""
	}
	// every documented parameter of the test (backward cumulative sums, longest run of zeros, k = 15, ...), not only the default
	s := ""
	for _, pr := range documented[test] {
		if len(bits) < minLen(test, pr) {
			continue
		}
		r := protoAt(test, pr, bits)
		s += fmt.Sprint(pr, ":", r["Pb"], r["Qb"], r["P2b"], r["Q2b"], ";")
		// the same call on short prefixes (sparse pattern tables, few blocks): purity needs no oracle, so any accepted
		// argument may be used
		for _, short := range []int{100, 257} {
			if len(bits) > short && short >= minLen(test, pr) && !(test == 13 && pr > short) {
				s += fmt.Sprint(pr, "/", short, ":", safeProto(test, pr, bits[:short:short]), ";")
			}
		}
	}
	if test == 10 && len(bits) >= 2048 {
		// non-square matrices are accepted by the exported bit-oriented entry point
		for _, mq := range [][2]int{{32, 16}, {16, 32}, {8, 8}, {32, 32}, {3, 5}} {
			s += fmt.Sprint(mq, ":", safeCall(func() (float64, float64) { return randomness.MatrixRankProto(bits, mq[0], mq[1]) }), ";")
		}
	}
	return s
}

func safeProto(test, pr int, bits []bool) (out string) {
	defer func() {
		if p := recover(); p != nil {
			out = "panic"
		}
	}()
	r := protoAt(test, pr, bits)
	return fmt.Sprint(r["Pb"], r["Qb"], r["P2b"], r["Q2b"])
}

func safeCall(f func() (float64, float64)) (out string) {
	defer func() {
		if p := recover(); p != nil {
			out = "panic"
		}
	}()
	p, q := f()
	return Bits(p) + Bits(q)
}

func concurrentCmd(job []byte, out *Out) error {
	var j struct {
		NBytes int   `json:"nbytes"`
		Seed   int64 `json:"seed"`
		// ConcFirst: run the concurrent phase before anything else in this process has called a test, so that lazily
		// initialised package state is first touched concurrently; results are compared with solitary results afterwards
		ConcFirst bool `json:"concFirst"`
		Plans     []struct {
			ID         int    `json:"id"`
			Goroutines int    `json:"goroutines"`
			Tasks      []task `json:"tasks"`
			Rounds     int    `json:"rounds"`
		} `json:"plans"`
	}
	if err := json.Unmarshal(job, &j); err != nil {
		return err
	}
	inputs := make([][]byte, 3)
	modes := []string{"uni", "bias", "periodic"}
	// three different lengths (different padded FFT sizes, block counts, ...), all windows of ONE capture with the
	// neighbouring window right behind each of them (cap > len), as a caller slicing a long recording would pass them
	lens := []int{j.NBytes, j.NBytes/2 + 3, 2*j.NBytes + 1}
	capture := make([]byte, 0, lens[0]+lens[1]+lens[2])
	for i := range inputs {
		capture = append(capture, genBytes(modes[i], lens[i], j.Seed+int64(i))...)
	}
	off := 0
	for i := range inputs {
		inputs[i] = capture[off : off+lens[i]]
		off += lens[i]
	}
	captureHash := sha256.Sum256(capture)
	probe := genBytes("uni", 2500, 4242)
	probeRes := make([]string, 18)
	sol := make([][]string, 3)
	solBits := make([][]string, 3)
	repeatMismatch := 0
	type pending struct {
		ev   R
		got  []string // "input|test|bytes|bits"
		keys [][3]int
		bits []string
	}
	var held []pending
	if j.ConcFirst {
		for _, pl := range j.Plans {
			var mu sync.Mutex
			var wg sync.WaitGroup
			start := make(chan struct{})
			pd := pending{ev: R{"ev": "conc", "id": pl.ID, "goroutines": pl.Goroutines, "panic": "", "nbytes": j.NBytes}}
			panicMsg := ""
			for _, tk := range pl.Tasks {
				wg.Add(1)
				go func(tk task) {
					defer wg.Done()
					defer func() {
						if p := recover(); p != nil {
							mu.Lock()
							panicMsg = fmt.Sprint(p)
							mu.Unlock()
						}
					}()
					data := append([]byte(nil), inputs[tk.Input]...)
					bits := randomness.B2bitArr(data)
					<-start
					g1 := runTask(tk.Test, data)
					g2 := runBitsTask(tk.Test, bits)
					mu.Lock()
					pd.got = append(pd.got, g1)
					pd.bits = append(pd.bits, g2)
					pd.keys = append(pd.keys, [3]int{tk.Input, tk.Test, 0})
					mu.Unlock()
				}(tk)
			}
			close(start)
			wg.Wait()
			pd.ev["panic"] = panicMsg
			held = append(held, pd)
		}
	}
	for t := 1; t <= 17; t++ {
		probeRes[t] = runTask(t, probe)
	}
	// solitary results (twice: determinism) of the (input, test) pairs the plans use
	needed := map[[2]int]bool{}
	for _, pl := range j.Plans {
		for _, tk := range pl.Tasks {
			needed[[2]int{tk.Input, tk.Test}] = true
		}
	}
	for i := range inputs {
		sol[i] = make([]string, 18)
		solBits[i] = make([]string, 18)
		bits := randomness.B2bitArr(inputs[i])
		for t := 1; t <= 17; t++ {
			if !needed[[2]int{i, t}] {
				continue
			}
			sol[i][t] = runTask(t, inputs[i])
			if runTask(t, inputs[i]) != sol[i][t] {
				repeatMismatch++
			}
			solBits[i][t] = runBitsTask(t, bits)
		}
	}
	if j.ConcFirst {
		for _, pd := range held {
			mism := 0
			for k, key := range pd.keys {
				if pd.got[k] != sol[key[0]][key[1]] || pd.bits[k] != solBits[key[0]][key[1]] {
					mism++
				}
			}
			pd.ev["calls"], pd.ev["mismatch"], pd.ev["mutated"], pd.ev["tablesChanged"], pd.ev["repeatMismatch"] = len(pd.keys), mism, sha256.Sum256(capture) != captureHash, false, repeatMismatch
			out.Emit(pd.ev)
		}
		return nil
	}
	for _, pl := range j.Plans {
		ev := R{"ev": "conc", "id": pl.ID, "goroutines": pl.Goroutines, "panic": "", "nbytes": j.NBytes}
		hashes := make([][32]byte, 3)
		for i := range inputs {
			hashes[i] = sha256.Sum256(inputs[i])
		}
		sharedBits := make([][]bool, 3)
		bitCapture := randomness.B2bitArr(capture)
		bitSnap := append([]bool(nil), bitCapture...)
		boff := 0
		for i := range inputs {
			sharedBits[i] = bitCapture[boff : boff+8*len(inputs[i])]
			boff += 8 * len(inputs[i])
		}
		var mu sync.Mutex
		mismatch, calls := 0, 0
		panicMsg := ""
		for round := 0; round < pl.Rounds; round++ {
			var wg sync.WaitGroup
			start := make(chan struct{})
			// every other plan (and every other round) runs with five processors visible to the runtime instead of all: the
			// solitary results were obtained with all of them, and a result must not depend on that number
			prevProcs := runtime.GOMAXPROCS(0)
			if (pl.ID+round)%2 == 1 {
				runtime.GOMAXPROCS(5)
			}
			for g, tk := range pl.Tasks {
				wg.Add(1)
				go func(g int, tk task) {
					defer wg.Done()
					defer func() {
						if p := recover(); p != nil {
							mu.Lock()
							panicMsg = fmt.Sprint(p)
							mu.Unlock()
						}
					}()
					data := inputs[tk.Input]
					bits := sharedBits[tk.Input]
					if !tk.Shared {
						data = append([]byte(nil), data...)
						bits = append([]bool(nil), bits...)
					}
					<-start
					got := runTask(tk.Test, data)
					gotBits := runBitsTask(tk.Test, bits)
					mu.Lock()
					calls++
					if got != sol[tk.Input][tk.Test] || gotBits != solBits[tk.Input][tk.Test] {
						mismatch++
					}
					mu.Unlock()
				}(g, tk)
			}
			close(start)
			wg.Wait()
			runtime.GOMAXPROCS(prevProcs)
		}
		mutated := false
		if sha256.Sum256(capture) != captureHash {
			mutated = true
		}
		for k := range bitCapture {
			if bitCapture[k] != bitSnap[k] {
				mutated = true
				break
			}
		}
		for i := range inputs {
			if sha256.Sum256(inputs[i]) != hashes[i] {
				mutated = true
			}
			fresh := randomness.B2bitArr(inputs[i])
			for k := range fresh {
				if fresh[k] != sharedBits[i][k] {
					mutated = true
					break
				}
			}
		}
		tablesChanged := false
		for t := 1; t <= 17; t++ {
			if runTask(t, probe) != probeRes[t] {
				tablesChanged = true
			}
		}
		ev["calls"], ev["mismatch"], ev["mutated"], ev["tablesChanged"], ev["repeatMismatch"] = calls, mismatch, mutated, tablesChanged, repeatMismatch
		ev["panic"] = panicMsg
		out.Emit(ev)
	}
	return nil
}
