package main

import (
	"encoding/json"
	"math"
	"math/rand"
	"runtime"
	"sort"
	"strconv"
	"sync"

	"github.com/Trisia/randomness"
	"github.com/Trisia/randomness/detect"
)

func init() {
	register("threshold-trace", thresholdTrace)
	register("thresholdq-replay", thresholdQReplay)
	register("thresholdq-trace", thresholdQTrace)
}

// job: {"ranges":[[s0,count],...], "batch":1000}
func thresholdTrace(job []byte, out *Out) error {
	var j struct {
		Ranges [][2]int `json:"ranges"`
		Batch  int      `json:"batch"`
	}
	if err := json.Unmarshal(job, &j); err != nil {
		return err
	}
	if j.Batch <= 0 {
		j.Batch = 1000
	}
	for _, r := range j.Ranges {
		s0, cnt := r[0], r[1]
		for cnt > 0 {
			k := cnt
			if k > j.Batch {
				k = j.Batch
			}
			ts := make([]int, k)
			func() {
				defer func() {
					if p := recover(); p != nil {
						for i := range ts {
							ts[i] = -1 // a crash is recorded as an impossible threshold
						}
					}
				}()
				for i := 0; i < k; i++ {
					ts[i] = detect.Threshold(s0 + i)
				}
			}()
			out.Emit(map[string]interface{}{"ev": "threshold", "s0": s0, "ts": ts})
			s0 += k
			cnt -= k
		}
	}
	return nil
}

func parseList(ss []string) ([]float64, error) {
	r := make([]float64, len(ss))
	for i, s := range ss {
		v, err := strconv.ParseFloat(s, 64)
		if err != nil {
			return nil, err
		}
		r[i] = v
	}
	return r, nil
}

// job: {"vectors":[{"id":..,"qs":[..],"rev":[..],"rot":[..]}]}
func thresholdQReplay(job []byte, out *Out) error {
	var j struct {
		Vectors []struct {
			ID  int      `json:"id"`
			Qs  []string `json:"qs"`
			Rev []string `json:"rev"`
			Rot []string `json:"rot"`
		} `json:"vectors"`
	}
	if err := json.Unmarshal(job, &j); err != nil {
		return err
	}
	for _, v := range j.Vectors {
		res := map[string]interface{}{"id": v.ID}
		func() {
			defer func() {
				if r := recover(); r != nil {
					res["panic"] = true
				}
			}()
			qs, err := parseList(v.Qs)
			if err != nil {
				res["err"] = err.Error()
				return
			}
			rev, _ := parseList(v.Rev)
			rot, _ := parseList(v.Rot)
			snap := append([]float64(nil), qs...)
			a := detect.ThresholdQ(qs)
			b := detect.ThresholdQ(rev)
			c := detect.ThresholdQ(rot)
			a2 := detect.ThresholdQ(qs)
			mutated := false
			for i := range qs {
				if qs[i] != snap[i] {
					mutated = true
				}
			}
			res["v"] = F(a)
			res["vbits"] = Bits(a)
			res["revbits"] = Bits(b)
			res["rotbits"] = Bits(c)
			res["againbits"] = Bits(a2)
			res["mutated"] = mutated
		}()
		out.Emit(res)
	}
	return nil
}

// job: {"seed":N,"count":K,"maxlen":L}: seeded random lists incl. exact boundary values
func thresholdQTrace(job []byte, out *Out) error {
	var j struct {
		Seed   int64 `json:"seed"`
		Count  int   `json:"count"`
		MaxLen int   `json:"maxlen"`
	}
	if err := json.Unmarshal(job, &j); err != nil {
		return err
	}
	rng := rand.New(rand.NewSource(j.Seed))
	edges := []float64{0, 0.1, 0.2, 0.3, 0.4, 0.5, 0.6, 0.7, 0.8, 0.9, 1.0}
	for c := 0; c < j.Count; c++ {
		var n int
		switch c % 5 {
		case 0:
			n = 20
		case 1:
			n = 50
		case 2:
			n = 1000
		default:
			n = 1 + rng.Intn(j.MaxLen)
		}
		mode := rng.Intn(4)
		qs := make([]float64, n)
		for i := range qs {
			switch {
			case mode == 0: // uniform
				qs[i] = rng.Float64()
			case mode == 1: // skewed
				x := rng.Float64()
				qs[i] = x * x
			case mode == 2: // many exact edges
				if rng.Intn(3) == 0 {
					qs[i] = edges[rng.Intn(len(edges))]
				} else {
					qs[i] = rng.Float64()
				}
			default: // clustered in few bins
				qs[i] = (float64(rng.Intn(3)) + rng.Float64()) / 10
			}
		}
		if c < 27 {
			// the float64 neighbours of every interior class boundary: one ulp below, on, one ulp above; the other 45 values
			// put 6, 3, 6, 3, ... values into the classes so that neighbouring classes hold different counts and the
			// statistic stays moderate (a misplaced value then changes the result visibly)
			e := edges[1+c/3]
			sp := []float64{math.Nextafter(e, 0), e, math.Nextafter(e, 2)}[c%3]
			qs = qs[:0]
			for i := 0; i < 5; i++ {
				qs = append(qs, sp)
			}
			for b := 0; b < 10; b++ {
				for k := 0; k < 6-3*(b%2); k++ {
					qs = append(qs, (float64(b)+0.2+0.6*rng.Float64())/10)
				}
			}
			n = len(qs)
		}
		if c >= 27 && c < 31 {
			// perfectly uniform lists (the statistic is exactly 0, the result exactly 1): n/10 values in every class
			n = []int{10, 20, 50, 1000}[c-27]
			qs = qs[:0]
			for b := 0; b < 10; b++ {
				for k := 0; k < n/10; k++ {
					qs = append(qs, (float64(b)+rng.Float64())/10)
				}
			}
			rng.Shuffle(len(qs), func(a, b int) { qs[a], qs[b] = qs[b], qs[a] })
		}
		if c >= 35 && c < 38 {
			// long and badly clustered: one class holds most of tens of thousands of values (the sum of squares of the class
			// deviations passes 2^31)
			n = []int{6000, 40000, 100000}[c-35]
			qs = make([]float64, n)
			for i := range qs {
				if i%7 == 0 {
					qs[i] = rng.Float64()
				} else {
					qs[i] = 0.3 + 0.1*rng.Float64()
				}
			}
		}
		if c >= 31 && c < 35 {
			// long lists (tens of thousands of values, as a caller pooling many samples would pass)
			n = []int{16384, 16391, 20000, 65537}[c-31]
			qs = make([]float64, n)
			for i := range qs {
				x := rng.Float64()
				if c%2 == 0 {
					x = 0.97*x + 0.03*x*x
				}
				qs[i] = x
			}
			// the end of the list is not like the rest: a value dropped there changes the statistic
			for i := n - 40; i < n; i++ {
				qs[i] = 0.05 * rng.Float64()
			}
		}
		ss := make([]string, n)
		for i, q := range qs {
			ss[i] = F(q)
		}
		ev := map[string]interface{}{"ev": "thresholdq", "qs": ss, "v": "NaN", "vbits": "", "pv": []string{}, "panic": false}
		func() {
			defer func() {
				if p := recover(); p != nil {
					ev["panic"] = true // a crash of the function under test is an observation, not a driver failure
				}
			}()
			v := detect.ThresholdQ(qs)
			pv := []string{}
			for p := 0; p < 3; p++ {
				cp := append([]float64(nil), qs...)
				rng.Shuffle(len(cp), func(a, b int) { cp[a], cp[b] = cp[b], cp[a] })
				// the permuted lists are evaluated with 3, 7 and all processors visible to the runtime
				prev := runtime.GOMAXPROCS(0)
				if p < 2 {
					runtime.GOMAXPROCS([]int{3, 7}[p])
				}
				pv = append(pv, Bits(detect.ThresholdQ(cp)))
				runtime.GOMAXPROCS(prev)
			}
			ev["v"], ev["vbits"], ev["pv"] = F(v), Bits(v), pv
		}()
		out.Emit(ev)
	}
	return nil
}

func init() { register("igamc-trace", igamcTrace) }

// job: {"chains":[{"a2":..,"xs":["..",...]}]} -> one event per chain with the float64 arguments actually used
func igamcTrace(job []byte, out *Out) error {
	var j struct {
		Chains []struct {
			A2 int      `json:"a2"`
			Xs []string `json:"xs"`
		} `json:"chains"`
		Stream bool `json:"stream"` // emit each chain as soon as it is done, no concurrent pass
	}
	if err := json.Unmarshal(job, &j); err != nil {
		return err
	}
	type chainRes struct {
		ev   map[string]interface{}
		a    float64
		xs   []float64
		bits []uint64
	}
	var all []*chainRes
	for _, c := range j.Chains {
		xs, err := parseList(c.Xs)
		if err != nil {
			return err
		}
		sort.Float64s(xs)
		a := float64(c.A2) / 2
		sx := make([]string, len(xs))
		sq := make([]string, len(xs))
		cr := &chainRes{a: a, xs: xs, bits: make([]uint64, len(xs))}
		ev := map[string]interface{}{"ev": "igamc", "a2": c.A2, "nondet": false}
		func() {
			defer func() {
				if p := recover(); p != nil {
					ev["panic"] = true
				}
			}()
			for i, x := range xs {
				sx[i] = F(x)
				q := randomness.Igamc(a, x)
				cr.bits[i] = math.Float64bits(q)
				sq[i] = F(q)
			}
		}()
		ev["xs"], ev["qs"] = sx, sq
		cr.ev = ev
		all = append(all, cr)
		if j.Stream {
			out.Emit(ev) // crash localisation: the first chain without an event is the one that killed the process
		}
	}
	if !j.Stream {
		// every chain again from sixteen goroutines at once, neighbouring goroutines working on different shapes (as the
		// workers of the parallel workflows do): the value must not depend on what other callers are computing
		var wg sync.WaitGroup
		var mu sync.Mutex
		next := 0
		for g := 0; g < 16; g++ {
			wg.Add(1)
			go func() {
				defer wg.Done()
				for {
					mu.Lock()
					k := next
					next++
					mu.Unlock()
					if k >= len(all) {
						return
					}
					cr := all[k]
					func() {
						defer func() {
							if p := recover(); p != nil {
								mu.Lock()
								cr.ev["nondet"] = true
								mu.Unlock()
							}
						}()
						for rep := 0; rep < 3; rep++ {
							for i, x := range cr.xs {
								if math.Float64bits(randomness.Igamc(cr.a, x)) != cr.bits[i] {
									mu.Lock()
									cr.ev["nondet"] = true
									mu.Unlock()
								}
							}
						}
					}()
				}
			}()
		}
		wg.Wait()
		for _, cr := range all {
			out.Emit(cr.ev)
		}
	}
	return nil
}
