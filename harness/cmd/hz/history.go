package main

// C18 driver, sequential side: executes one call history (a plan emitted by History.tla) in this
// process. A call of class c runs every test with every documented parameter through its bit-oriented
// and byte-oriented entry points (and the registry runner for the default) on the input of class c.
// With "only" >= 0 a single (test, parameter) combination is run: the solitary reference.

import (
	"encoding/json"
	"fmt"
	"time"

	"github.com/Trisia/randomness"
	"github.com/Trisia/randomness/fft"
)

func init() { register("history", historyCmd) }

type histCombo struct{ test, param int }

func histCombos(n int) []histCombo {
	var cs []histCombo
	for t := 1; t <= 15; t++ {
		for _, pr := range documented[t] {
			if n < minLen(t, pr) {
				continue
			}
			if t == 13 && pr > 500 && n > 70000 {
				continue // minutes per plan; the 500-bit blocks exercise the same code
			}
			cs = append(cs, histCombo{t, pr})
		}
	}
	return cs
}

func safeR(f func() R) (out string) {
	defer func() {
		if p := recover(); p != nil {
			out = "panic"
		}
	}()
	r := f()
	return fmt.Sprint(r["Pb"], r["Qb"], r["P2b"], r["Q2b"])
}

func histCall(cb histCombo, bits []bool, data []byte) string {
	s := fmt.Sprintf("%d/%d bits=%s", cb.test, cb.param, safeR(func() R { return protoAt(cb.test, cb.param, bits) }))
	if data != nil {
		s += " bytes=" + safeR(func() R { return bytesAt(cb.test, cb.param, data) })
		if cb.param == defaults[cb.test-1] {
			s += " runner=" + safeR(func() R { return fromResult(randomness.TestMethodArr[cb.test-1].Runner(data)) })
		}
	}
	return s
}

// job: {"classes":[{"n":..,"mode":..,"seed":..}], "plan":[class ids, 1-based], "only": combo index or -1}
func historyCmd(job []byte, out *Out) error {
	var j struct {
		Classes []struct {
			N    int    `json:"n"`
			Mode string `json:"mode"`
			Seed int64  `json:"seed"`
		} `json:"classes"`
		Plan []int `json:"plan"`
		Only int   `json:"only"`
		ID   int   `json:"id"`
	}
	if err := json.Unmarshal(job, &j); err != nil {
		return err
	}
	vals := make([][]string, 0, len(j.Plan))
	for _, c := range j.Plan {
		if c < 1 || c > len(j.Classes) {
			return fmt.Errorf("class %d out of range", c)
		}
		cl := j.Classes[c-1]
		bits := genBits(cl.Mode, cl.N, cl.Seed)
		var data []byte
		if cl.N%8 == 0 {
			data = bitsToBytes(bits)
		}
		cs := histCombos(cl.N)
		var v []string
		if j.Only < 0 {
			// part of a history: requests the library refuses (and reports as errors) belong to a caller's life too
			_, _ = fft.New(0)
			_, _ = fft.New(1 << 28)
			// ... and so does using what the exported helpers hand out: the caller owns the slices it gets back
			for b := 0; b < 256; b++ {
				r := randomness.B2bit(byte(b))
				for i := range r {
					r[i] = !r[i]
				}
			}
			r2 := randomness.B2bitArr([]byte{0x00, 0xFF, 0xA5})
			for i := range r2 {
				r2[i] = i%3 == 0
			}
		}
		done := make(chan struct{})
		go func() {
			defer close(done)
			for k, cb := range cs {
				if j.Only >= 0 && k != j.Only {
					continue
				}
				v = append(v, histCall(cb, bits, data))
			}
		}()
		select {
		case <-done:
		case <-time.After(240 * time.Second):
			// a call that never returns: recorded as such (the solitary reference has a value there)
			out.Emit(R{"ev": "hist", "id": j.ID, "plan": j.Plan, "vals": append(vals, []string{"hang"}), "only": j.Only, "hang": true})
			return nil
		}
		vals = append(vals, v)
	}
	out.Emit(R{"ev": "hist", "id": j.ID, "plan": j.Plan, "vals": vals, "only": j.Only})
	return nil
}
