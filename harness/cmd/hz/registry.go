package main

// C15 / C16 driver: pushes byte strings through the registry, the round functions and the
// parameterised entry points, and extreme / seeded bit sequences through every test.

import (
	"encoding/json"
	"fmt"
	"math"
	"math/rand"
	"os"
	"path/filepath"
	"time"

	"github.com/Trisia/randomness"
	"github.com/Trisia/randomness/detect"
)

func init() {
	register("registry", registryCmd)
	register("results", resultsCmd)
}

type R map[string]interface{}

func rr(p, q, p2, q2 float64) R {
	return R{"P": F(p), "Q": F(q), "P2": F(p2), "Q2": F(q2), "Pb": Bits(p), "Qb": Bits(q), "P2b": Bits(p2), "Q2b": Bits(q2), "pass": false}
}

func fromResult(t *randomness.TestResult) R {
	r := rr(t.P, t.Q, t.P2, t.Q2)
	r["pass"] = t.Pass
	return r
}

// protoAt runs the bit-oriented parameterised entry point of test i (1-based) with parameter param.
func protoAt(i, param int, bits []bool) R {
	switch i {
	case 1:
		p, q := randomness.MonoBitFrequencyTest(bits)
		return rr(p, q, 0, 0)
	case 2:
		if param == 0 {
			p, q := randomness.FrequencyWithinBlockTest(bits)
			return rr(p, q, 0, 0)
		}
		p, q := randomness.FrequencyWithinBlockProto(bits, param)
		return rr(p, q, 0, 0)
	case 3:
		p, q := randomness.PokerProto(bits, param)
		return rr(p, q, 0, 0)
	case 4:
		p1, p2, q1, q2 := randomness.OverlappingTemplateMatchingProto(bits, param)
		return rr(p1, q1, p2, q2)
	case 5:
		p, q := randomness.RunsTest(bits)
		return rr(p, q, 0, 0)
	case 6:
		p, q := randomness.RunsDistributionTest(bits)
		return rr(p, q, 0, 0)
	case 7:
		p, q := randomness.LongestRunOfOnesInABlockProto(bits, param == 1)
		return rr(p, q, 0, 0)
	case 8:
		p, q := randomness.BinaryDerivativeProto(bits, param)
		return rr(p, q, 0, 0)
	case 9:
		p, q := randomness.AutocorrelationProto(bits, param)
		return rr(p, q, 0, 0)
	case 10:
		p, q := randomness.MatrixRankProto(bits, param, param)
		return rr(p, q, 0, 0)
	case 11:
		p, q := randomness.CumulativeTest(bits, param == 1)
		return rr(p, q, 0, 0)
	case 12:
		p, q := randomness.ApproximateEntropyProto(bits, param)
		return rr(p, q, 0, 0)
	case 13:
		p, q := randomness.LinearComplexityProto(bits, param)
		return rr(p, q, 0, 0)
	case 14:
		p, q := randomness.MaurerUniversalTest(bits)
		return rr(p, q, 0, 0)
	default:
		p, q := randomness.DiscreteFourierTransformTest(bits)
		return rr(p, q, 0, 0)
	}
}

// bytesAt runs the byte-oriented parameterised entry point of test i (1-based) with parameter param.
func bytesAt(i, param int, data []byte) R {
	switch i {
	case 1:
		p, q := randomness.MonoBitFrequencyTestBytes(data)
		return rr(p, q, 0, 0)
	case 2:
		if param == 0 {
			return fromResult(randomness.FrequencyWithinBlock(data))
		}
		p, q := randomness.FrequencyWithinBlockTestBytes(data, param)
		return rr(p, q, 0, 0)
	case 3:
		p, q := randomness.PokerTestBytes(data, param)
		return rr(p, q, 0, 0)
	case 4:
		p1, p2, q1, q2 := randomness.OverlappingTemplateMatchingTestBytes(data, param)
		return rr(p1, q1, p2, q2)
	case 5:
		p, q := randomness.RunsTestBytes(data)
		return rr(p, q, 0, 0)
	case 6:
		p, q := randomness.RunsDistributionTestBytes(data)
		return rr(p, q, 0, 0)
	case 7:
		p, q := randomness.LongestRunOfOnesInABlockTestBytes(data, param == 1)
		return rr(p, q, 0, 0)
	case 8:
		p, q := randomness.BinaryDerivativeTestBytes(data, param)
		return rr(p, q, 0, 0)
	case 9:
		p, q := randomness.AutocorrelationTestBytes(data, param)
		return rr(p, q, 0, 0)
	case 10:
		p, q := randomness.MatrixRankTestBytes(data, param, param)
		return rr(p, q, 0, 0)
	case 11:
		p, q := randomness.CumulativeTestBytes(data, param == 1)
		return rr(p, q, 0, 0)
	case 12:
		p, q := randomness.ApproximateEntropyTestBytes(data, param)
		return rr(p, q, 0, 0)
	case 13:
		p, q := randomness.LinearComplexityTestBytes(data, param)
		return rr(p, q, 0, 0)
	case 14:
		p, q := randomness.MaurerUniversalTestBytes(data)
		return rr(p, q, 0, 0)
	default:
		p, q := randomness.DiscreteFourierTransformTestBytes(data)
		return rr(p, q, 0, 0)
	}
}

var testIDs = []string{"mono", "block", "poker", "serial", "runs", "rundist", "longest", "bd", "ac", "rank", "cusum", "apen", "lc", "maurer", "dft"}
var defaults = []int{0, 0, 8, 5, 0, 0, 1, 7, 16, 32, 1, 5, 500, 0, 0}

// documented neighbouring parameters of each parameterised test
var neighbours = map[int][]int{3: {2, 4}, 4: {2, 3, 7}, 7: {0}, 8: {3, 15}, 9: {1, 2, 8, 32}, 10: {31, 16}, 11: {0}, 12: {2, 7}, 13: {1000, 499}}

func same(a, b R) bool {
	return a["Pb"] == b["Pb"] && a["Qb"] == b["Qb"] && a["P2b"] == b["P2b"] && a["Q2b"] == b["Q2b"]
}

// ownBits is the driver's transcription of BitSeq!BytesToBits (most significant bit first); the bytes event logs it on a
// small array so that TLC ties it to the TLA+ definition.
func ownBits(data []byte) []bool {
	out := make([]bool, 0, 8*len(data))
	for _, b := range data {
		for k := 7; k >= 0; k-- {
			out = append(out, (b>>uint(k))&1 == 1)
		}
	}
	return out
}

func firstDiff(a, b []bool) int {
	if len(a) != len(b) {
		if len(a) < len(b) {
			return len(a)
		}
		return len(b)
	}
	for i := range a {
		if a[i] != b[i] {
			return i
		}
	}
	return -1
}

func genBytes(mode string, n int, seed int64) []byte {
	bits := genBits(mode, n*8, seed)
	return bitsToBytes(bits)
}

// job: {"inputs":[{"id":..,"mode":..,"nbytes":..,"seed":..,"embed":[bytes...]}]}
func registryCmd(job []byte, out *Out) error {
	var j struct {
		Inputs []struct {
			ID     int    `json:"id"`
			Mode   string `json:"mode"`
			NBytes int    `json:"nbytes"`
			Seed   int64  `json:"seed"`
			Embed  []int  `json:"embed"`
			Light  bool   `json:"light"` // large inputs: only the linear-time tests, byte-oriented runner vs bit-oriented default
		} `json:"inputs"`
	}
	if err := json.Unmarshal(job, &j); err != nil {
		return err
	}
	tmpdir, _ := os.MkdirTemp("", "hzreg")
	defer os.RemoveAll(tmpdir)
	for _, in := range j.Inputs {
		data := genBytes(in.Mode, in.NBytes, in.Seed)
		if len(in.Embed) > 0 {
			rng := rand.New(rand.NewSource(in.Seed + 1))
			pos := 0
			if len(data) > len(in.Embed) {
				pos = rng.Intn(len(data) - len(in.Embed))
			}
			for k, b := range in.Embed {
				if pos+k < len(data) {
					data[pos+k] = byte(b)
				}
			}
		}
		if in.Light {
			ev := R{"ev": "light", "id": in.ID, "nbytes": len(data), "mode": in.Mode, "seed": in.Seed, "panic": "", "pairs": []R{}, "expand": -2, "readgroup": -2, "mutated": false}
			func() {
				defer func() {
					if p := recover(); p != nil {
						ev["panic"] = fmt.Sprint(p)
					}
				}()
				snap := append([]byte(nil), data...)
				own := ownBits(data)
				ev["expand"] = firstDiff(randomness.B2bitArr(data), own)
				pairs := []R{}
				for _, i := range []int{1, 2, 3, 5, 6, 7, 8, 9, 11} {
					a := fromResult(randomness.TestMethodArr[i-1].Runner(data))
					d := protoAt(i, defaults[i-1], own)
					pairs = append(pairs, R{"i": i, "runner": a, "def": d})
				}
				ev["pairs"] = pairs
				fn := filepath.Join(tmpdir, fmt.Sprintf("in%d.bin", in.ID))
				if err := os.WriteFile(fn, data, 0600); err == nil {
					ev["readgroup"] = firstDiff(randomness.ReadGroup(fn), own)
					ln := filepath.Join(tmpdir, fmt.Sprintf("link%d.bin", in.ID))
					if os.Symlink(fn, ln) == nil {
						if d := firstDiff(randomness.ReadGroup(ln), own); d != -1 {
							ev["readgroup"] = d
						}
						os.Remove(ln)
					}
					os.Remove(fn)
				}
				for i := range data {
					if data[i] != snap[i] {
						ev["mutated"] = true
					}
				}
			}()
			out.Emit(ev)
			continue
		}
		ev := R{"ev": "reg", "id": in.ID, "nbytes": len(data), "mode": in.Mode, "seed": in.Seed, "panic": "", "expand": -2}
		func() {
			defer func() {
				if p := recover(); p != nil {
					ev["panic"] = fmt.Sprint(p)
				}
			}()
			snap := append([]byte(nil), data...)
			// the bit-oriented entry points get the driver's own expansion; the library's must equal it
			bits := ownBits(data)
			ev["expand"] = firstDiff(randomness.B2bitArr(data), bits)
			runners := make([]R, 15)
			for i, it := range randomness.TestMethodArr {
				if i < 15 {
					runners[i] = fromResult(it.Runner(data))
				}
			}
			ev["runners"] = runners
			r15 := detect.Round15(data)
			r12 := detect.Round12(data)
			ev["len15"], ev["len12"] = len(r15), len(r12)
			a15 := make([]R, 0, 15)
			for _, t := range r15 {
				a15 = append(a15, fromResult(t))
			}
			a12 := make([]R, 0, 12)
			for _, t := range r12 {
				a12 = append(a12, fromResult(t))
			}
			ev["round15"], ev["round12"] = a15, a12
			// the registry and the full round after the reduced round has run: nothing may have moved
			stable := len(randomness.TestMethodArr) >= 15
			for i, it := range randomness.TestMethodArr {
				if i < 15 && !same(fromResult(it.Runner(data)), runners[i]) {
					stable = false
				}
			}
			r15b := detect.Round15(data)
			if len(r15b) != len(r15) {
				stable = false
			}
			for i := range r15b {
				if i < len(r15) && (r15b[i].Name != r15[i].Name || !same(fromResult(r15b[i]), fromResult(r15[i]))) {
					stable = false
				}
			}
			ev["stable"] = stable
			ev["reglen"] = len(randomness.TestMethodArr)
			defs := make([]R, 15)
			nb := []R{}
			for i := 1; i <= 15; i++ {
				d := protoAt(i, defaults[i-1], bits)
				d["t"] = testIDs[i-1]
				d["param"] = defaults[i-1]
				d["pass"] = runners[i-1]["pass"]
				defs[i-1] = d
				for _, pr := range neighbours[i] {
					func() {
						defer func() { recover() }()
						x := protoAt(i, pr, bits)
						// only neighbours that differ numerically from the default on this input are informative
						if !same(x, d) {
							x["i"] = i
							x["param"] = pr
							nb = append(nb, x)
						}
					}()
				}
			}
			ev["defaults"] = defs
			ev["nb"] = nb
			ev["nbcount"] = len(nb)
			mut := false
			for i := range data {
				if data[i] != snap[i] {
					mut = true
				}
			}
			ev["mutated"] = mut
			// loading a file yields the same bits as expanding its bytes
			fn := filepath.Join(tmpdir, fmt.Sprintf("in%d.bin", in.ID))
			if err := os.WriteFile(fn, data, 0600); err == nil {
				g := randomness.ReadGroup(fn)
				eq := len(g) == len(bits)
				for i := 0; eq && i < len(g); i++ {
					if g[i] != bits[i] {
						eq = false
					}
				}
				// ... and through a symbolic link to it (relative target), as sample directories are often laid out
				ln := filepath.Join(tmpdir, fmt.Sprintf("link%d.bin", in.ID))
				if os.Symlink(filepath.Base(fn), ln) == nil {
					g2 := randomness.ReadGroup(ln)
					if firstDiff(g2, bits) != -1 {
						eq = false
					}
					os.Remove(ln)
				}
				ev["readgroup"] = eq
				os.Remove(fn)
			} else {
				ev["readgroup"] = false
			}
		}()
		for _, k := range []string{"runners", "round15", "round12", "defaults", "nb"} {
			if _, ok := ev[k]; !ok {
				ev[k] = []R{}
			}
		}
		for _, k := range []string{"len15", "len12", "nbcount"} {
			if _, ok := ev[k]; !ok {
				ev[k] = -1
			}
		}
		if _, ok := ev["reglen"]; !ok {
			ev["reglen"] = -1
		}
		for _, k := range []string{"mutated", "readgroup", "stable"} {
			if _, ok := ev[k]; !ok {
				ev[k] = false
			}
		}
		out.Emit(ev)
	}
	return nil
}

// minimum admissible length (bits) of test i with parameter param
func minLen(i, param int) int {
	switch i {
	case 2:
		if param == 0 {
			return 100
		}
		return max(100, param)
	case 6:
		return 100
	case 7:
		return 128
	case 8:
		return max(100, param+1)
	case 9:
		return max(100, param+1)
	case 10:
		return 1024
	case 13:
		return param
	case 14:
		return 7 * 1281
	}
	return 100
}

func max(a, b int) int {
	if a > b {
		return a
	}
	return b
}

var documented = map[int][]int{1: {0}, 2: {0, 100, 1000}, 3: {2, 4, 8}, 4: {2, 3, 5, 7}, 5: {0}, 6: {0}, 7: {1, 0}, 8: {3, 7, 15}, 9: {1, 2, 8, 16, 32},
	10: {32}, 11: {1, 0}, 12: {2, 5, 7}, 13: {500, 1000, 5000}, 14: {0}, 15: {0}}

// job: {"inputs":[{"id":..,"mode":..,"n":..,"seed":..}], "runners": true}
func resultsCmd(job []byte, out *Out) error {
	var j struct {
		SerialHunt int   `json:"serialHunt"`
		PassHunt   int   `json:"passHunt"`
		WindowHunt int   `json:"windowHunt"`
		HuntSeed   int64 `json:"huntSeed"`
		Inputs     []struct {
			ID   int    `json:"id"`
			Mode string `json:"mode"`
			N    int    `json:"n"`
			Seed int64  `json:"seed"`
			Only string `json:"only"` // run this test only (bit-oriented entry point; for inputs at the upper size limit)
		} `json:"inputs"`
	}
	if err := json.Unmarshal(job, &j); err != nil {
		return err
	}
	// inputs on which exactly one of the two P-values of the overlapping-subsequence test is below 0.01 (about 1 % of
	// random sequences): found by scanning seeds with the real test; the registry result on them is then judged by TLC
	found := 0
	for sd := int64(0); sd < int64(j.SerialHunt) && found < 12; sd++ {
		bits := genBits("uni", 1024, j.HuntSeed+sd)
		data := bitsToBytes(bits)
		var r *randomness.TestResult
		func() {
			defer func() { recover() }()
			r = randomness.OverlappingTemplateMatching(data)
		}()
		if r == nil || (r.P >= 0.01) == (r.P2 >= 0.01) {
			continue
		}
		found++
		out.Emit(R{"ev": "res", "id": -1, "t": "serial", "param": 5, "n": 1024, "mode": "serialhunt", "seed": j.HuntSeed + sd, "panic": "", "isrunner": true, "mutated": false, "r": fromResult(r)})
	}
	// marginal results of every registry runner (P just below / just above 0.01): about 5 % of uniform inputs per runner
	perRunner := make([]int, 15)
	for sd := int64(0); sd < int64(j.PassHunt); sd++ {
		data := bitsToBytes(genBits("uni", 20000, j.HuntSeed+1000003*sd+7))
		for i, it := range randomness.TestMethodArr {
			if i >= 15 || perRunner[i] >= 10 {
				continue
			}
			var r *randomness.TestResult
			func() {
				defer func() { recover() }()
				r = it.Runner(data)
			}()
			if r == nil {
				continue
			}
			pmin := r.P
			if i == 3 && r.P2 < pmin {
				pmin = r.P2
			}
			if !(pmin > 1e-5 && pmin < 0.03) {
				continue
			}
			perRunner[i]++
			out.Emit(R{"ev": "res", "id": -2, "t": testIDs[i], "param": defaults[i], "n": 20000, "mode": "passhunt", "seed": j.HuntSeed + 1000003*sd + 7, "panic": "", "isrunner": true, "mutated": false, "r": fromResult(r)})
		}
	}
	// results a hair (< 1e-6) below and above the significance level, by construction: for the monobit and the autocorrelation
	// test P is a function of one integer statistic, so lengths are scanned for an attainable statistic whose P falls into
	// the window, and a sequence with exactly that statistic is built (Pass must follow P >= 0.01 to the last digit)
	if j.WindowHunt > 0 {
		rng := rand.New(rand.NewSource(j.HuntSeed + 99))
		found := map[string]int{}
		for n := 8000; n <= 400000 && (found["mono-"] < j.WindowHunt || found["mono+"] < j.WindowHunt || found["ac-"] < j.WindowHunt || found["ac+"] < j.WindowHunt); n += 8 {
			for _, t := range []string{"mono", "ac"} {
				m := n
				if t == "ac" {
					m = n - 16
				}
				c := 2.5758293035489 * math.Sqrt(float64(m)) // |2k - m| with P = 0.01
				for _, dev := range []int{int(c) - 1, int(c), int(c) + 1, int(c) + 2} {
					if dev < 0 || (dev+m)%2 != 0 {
						continue
					}
					P := math.Erfc(float64(dev) / math.Sqrt(2*float64(m)))
					side := ""
					if P < 0.01 && P >= 0.01-1e-6 {
						side = "-"
					} else if P >= 0.01 && P < 0.01+1e-6 {
						side = "+"
					}
					if side == "" || found[t+side] >= j.WindowHunt {
						continue
					}
					sign := 1
					if rng.Intn(2) == 0 {
						sign = -1
					}
					k := (m + sign*dev) / 2 // ones (mono) or disagreeing pairs (ac)
					bits := make([]bool, n)
					if t == "mono" {
						for _, i := range rng.Perm(n)[:k] {
							bits[i] = true
						}
					} else {
						e := make([]bool, m)
						for _, i := range rng.Perm(m)[:k] {
							e[i] = true
						}
						for i := 0; i < 16; i++ {
							bits[i] = rng.Intn(2) == 1
						}
						for i := 0; i < m; i++ {
							bits[i+16] = bits[i] != e[i]
						}
					}
					data := bitsToBytes(bits)
					var r *randomness.TestResult
					func() {
						defer func() { recover() }()
						if t == "mono" {
							r = randomness.MonoBitFrequency(data)
						} else {
							r = randomness.Autocorrelation(data)
						}
					}()
					if r == nil {
						continue
					}
					found[t+side]++
					param := 0
					if t == "ac" {
						param = 16
					}
					out.Emit(R{"ev": "res", "id": -3, "t": t, "param": param, "n": n, "mode": "windowhunt" + side, "seed": j.HuntSeed, "panic": "", "isrunner": true, "mutated": false, "r": fromResult(r)})
				}
			}
		}
	}
	for _, in := range j.Inputs {
		bits := genBits(in.Mode, in.N, in.Seed)
		snap := append([]bool(nil), bits...)
		for i := 1; i <= 15; i++ {
			if in.Only != "" && testIDs[i-1] != in.Only {
				continue
			}
			for _, pr := range documented[i] {
				if in.N < minLen(i, pr) {
					continue
				}
				if i == 13 && pr >= 1000 && in.N > 2000000 {
					continue // cost
				}
				ev := R{"ev": "res", "id": in.ID, "t": testIDs[i-1], "param": pr, "n": in.N, "mode": in.Mode, "seed": in.Seed, "panic": "", "isrunner": false, "mutated": false}
				func() {
					defer func() {
						if p := recover(); p != nil {
							ev["panic"] = fmt.Sprint(p)
						}
					}()
					ev["r"] = protoAt(i, pr, bits)
				}()
				if _, ok := ev["r"]; !ok {
					ev["r"] = rr(math.NaN(), math.NaN(), 0, 0)
				}
				for k := range bits {
					if bits[k] != snap[k] {
						ev["mutated"] = true
						bits[k] = snap[k]
					}
				}
				out.Emit(ev)
			}
		}
		// registry runners on whole bytes
		if in.N%8 == 0 {
			data := bitsToBytes(bits)
			for i, it := range randomness.TestMethodArr {
				if i >= 15 || in.N < minLen(i+1, defaults[i]) || (in.Only != "" && testIDs[i] != in.Only) {
					continue
				}
				ev := R{"ev": "res", "id": in.ID, "t": testIDs[i], "param": defaults[i], "n": in.N, "mode": in.Mode, "seed": in.Seed, "panic": "", "isrunner": true, "mutated": false}
				func() {
					defer func() {
						if p := recover(); p != nil {
							ev["panic"] = fmt.Sprint(p)
						}
					}()
					ev["r"] = fromResult(it.Runner(data))
				}()
				if _, ok := ev["r"]; !ok {
					ev["r"] = rr(math.NaN(), math.NaN(), 0, 0)
				}
				out.Emit(ev)
			}
		}
	}
	return nil
}

// job: {"n":..,"mode":..,"seed":..,"t":"dft","waitMs":3000}: starts the test on an input at the upper end of its range and
// watches it for waitMs: a refusal (panic) within that time is recorded; if the call is still computing it is abandoned
// (the thorough tier lets it finish). One "probe" event.
func probeCmd(job []byte, out *Out) error {
	var j struct {
		N      int    `json:"n"`
		Mode   string `json:"mode"`
		Seed   int64  `json:"seed"`
		T      string `json:"t"`
		WaitMs int    `json:"waitMs"`
	}
	if err := json.Unmarshal(job, &j); err != nil {
		return err
	}
	i := idxOf(j.T)
	if i == 0 {
		return fmt.Errorf("unknown test %q", j.T)
	}
	bits := genBits(j.Mode, j.N, j.Seed)
	ev := R{"ev": "probe", "t": j.T, "n": j.N, "mode": j.Mode, "seed": j.Seed, "panic": "", "finished": false, "r": rr(0, 0, 0, 0), "id": 0}
	type outc struct {
		r R
		p string
	}
	ch := make(chan outc, 1)
	go func() {
		var o outc
		defer func() {
			if p := recover(); p != nil {
				o.p = fmt.Sprint(p)
			}
			ch <- o
		}()
		o.r = protoAt(i, defaults[i-1], bits)
	}()
	select {
	case o := <-ch:
		ev["panic"] = o.p
		if o.p == "" {
			ev["finished"] = true
			ev["r"] = o.r
		}
	case <-time.After(time.Duration(j.WaitMs) * time.Millisecond):
	}
	out.Emit(ev)
	out.Flush()
	os.Exit(0) // the abandoned call may still be running
	return nil
}

func init() {
	register("probe", probeCmd)
	register("tooltable", toolTableCmd)
	register("bytetable", byteTableCmd)
}

// the byte <-> bit helpers of utils.go on all 256 byte values and on a few multi-byte strings
func byteTableCmd(job []byte, out *Out) error {
	rows := make([][]int, 256)
	back := make([]int, 256)
	for b := 0; b < 256; b++ {
		bs := randomness.B2bit(byte(b))
		r := make([]int, len(bs))
		for i, v := range bs {
			if v {
				r[i] = 1
			}
		}
		rows[b] = r
		back[b] = int(randomness.B2Byte(bs))
	}
	arr := randomness.B2bitArr([]byte{0x80, 0x01, 0xA5, 0x00, 0xFF})
	ai := make([]int, len(arr))
	for i, v := range arr {
		if v {
			ai[i] = 1
		}
	}
	// a caller owns the slice it gets back: append to it and write into it, then expand everything again
	for b := 0; b < 256; b++ {
		r := randomness.B2bit(byte(b))
		for i := range r {
			r[i] = !r[i] // in place first (a slice with len = cap would be moved by append)
		}
		r = append(r, true, false, true)
		for i := range r {
			r[i] = !r[i]
		}
		r2 := randomness.B2bitArr([]byte{byte(b), byte(255 - b)})
		for i := range r2 {
			r2[i] = true
		}
	}
	rows2 := make([][]int, 256)
	for b := 0; b < 256; b++ {
		bs := randomness.B2bit(byte(b))
		r := make([]int, len(bs))
		for i, v := range bs {
			if v {
				r[i] = 1
			}
		}
		rows2[b] = r
	}
	arr2 := randomness.B2bitArr([]byte{0x80, 0x01, 0xA5, 0x00, 0xFF})
	ai2 := make([]int, len(arr2))
	for i, v := range arr2 {
		if v {
			ai2[i] = 1
		}
	}
	pa := ownBits([]byte{0x80, 0x01, 0xA5, 0x00, 0xFF})
	pai := make([]int, len(pa))
	for i, v := range pa {
		if v {
			pai[i] = 1
		}
	}
	out.Emit(R{"ev": "bytes", "proxyarr": pai, "rows": rows, "back": back, "arr": ai, "arrbytes": []int{0x80, 0x01, 0xA5, 0x00, 0xFF}, "rows2": rows2, "arr2": ai2})
	return nil
}

// job: {"files":[paths]} -> for each file the library values for every (test, documented parameter), keyed by
// the canonical parameter tokens used in the report header
func toolTableCmd(job []byte, out *Out) error {
	var j struct {
		Files []string `json:"files"`
	}
	if err := json.Unmarshal(job, &j); err != nil {
		return err
	}
	type spec struct {
		i, param int
		tok      string
	}
	specs := []spec{{1, 0, ""}, {3, 4, "m=4"}, {3, 8, "m=8"}, {3, 2, "m=2"}, {4, 2, "m=2"}, {4, 3, "m=3"}, {4, 5, "m=5"}, {4, 7, "m=7"}, {5, 0, ""}, {6, 0, ""},
		{7, 1, "ones"}, {7, 0, "zeros"}, {8, 3, "k=3"}, {8, 7, "k=7"}, {8, 15, "k=15"}, {9, 1, "d=1"}, {9, 2, "d=2"}, {9, 8, "d=8"}, {9, 16, "d=16"}, {9, 32, "d=32"},
		{10, 32, ""}, {11, 1, "fwd"}, {11, 0, "bwd"}, {12, 2, "m=2"}, {12, 5, "m=5"}, {12, 7, "m=7"}, {13, 500, "m=500"}, {13, 1000, "m=1000"}, {13, 5000, "m=5000"},
		{14, 0, ""}, {15, 0, ""}, {2, 100, "m=100"}, {2, 1000, "m=1000"}, {2, 10000, "m=10000"}, {2, 100000, "m=100000"}, {2, 1000000, "m=1000000"}}
	for _, fn := range j.Files {
		data, err := os.ReadFile(fn)
		if err != nil {
			return err
		}
		bits := randomness.B2bitArr(data)
		table := []R{}
		for _, s := range specs {
			if len(bits) < minLen(s.i, s.param) {
				continue
			}
			func() {
				defer func() { recover() }()
				r := protoAt(s.i, s.param, bits)
				table = append(table, R{"t": testIDs[s.i-1], "p": s.tok, "P": r["P"], "Q": r["Q"], "P2": r["P2"], "Q2": r["Q2"]})
			}()
		}
		out.Emit(R{"file": filepath.Base(fn), "nbits": len(bits), "table": table})
	}
	return nil
}
