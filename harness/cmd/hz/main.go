// hz: the Go side of the /verif conformance harness. Every subcommand reads a JSON job
// (file path in argv[2]) and writes ndjson to the path in argv[3]. It only executes the real
// code from /repo and records what it observes; judging is done by TLC / the orchestrator.
package main

import (
	"bufio"
	"encoding/json"
	"fmt"
	"math"
	"os"
	"strconv"
)

type cmdFn func(job []byte, out *Out) error

var commands = map[string]cmdFn{}

func register(name string, f cmdFn) { commands[name] = f }

// Out is an ndjson writer.
type Out struct {
	w *bufio.Writer
	f *os.File
}

func (o *Out) Emit(v interface{}) {
	b, err := json.Marshal(v)
	if err != nil {
		panic(err)
	}
	o.w.Write(b)
	o.w.WriteByte('\n')
}

func (o *Out) Flush() { o.w.Flush() }

// F renders a float64 as the shortest decimal that round-trips ("NaN", "+Inf", "-Inf" otherwise).
func F(x float64) string {
	return strconv.FormatFloat(x, 'e', -1, 64)
}

// Bits renders the IEEE-754 bit pattern.
func Bits(x float64) string {
	return fmt.Sprintf("%016x", math.Float64bits(x))
}

func main() {
	if len(os.Args) < 4 {
		fmt.Fprintln(os.Stderr, "usage: hz <command> <job.json> <out.ndjson>")
		os.Exit(2)
	}
	f, ok := commands[os.Args[1]]
	if !ok {
		fmt.Fprintln(os.Stderr, "unknown command", os.Args[1])
		os.Exit(2)
	}
	job, err := os.ReadFile(os.Args[2])
	if err != nil {
		fmt.Fprintln(os.Stderr, err)
		os.Exit(2)
	}
	of, err := os.Create(os.Args[3])
	if err != nil {
		fmt.Fprintln(os.Stderr, err)
		os.Exit(2)
	}
	out := &Out{w: bufio.NewWriterSize(of, 1<<20), f: of}
	err = f(job, out)
	out.Flush()
	of.Close()
	if err != nil {
		fmt.Fprintln(os.Stderr, "hz:", err)
		os.Exit(2)
	}
}
