package main

// Channel S/T driver for the detection workflows (detect.*Detect, *DetectFast, SingleDetect).
// Everything is driven through the public surface: a caller-supplied io.Reader (chunking, faults,
// delays, observation of every Read) and stub runners swapped into randomness.TestMethodArr that
// verify the sample they are handed against a self-describing stream and return planned results.

import (
	"encoding/binary"
	"encoding/json"
	"errors"
	"fmt"
	"io"
	"math/rand"
	"runtime"
	"strings"
	"sync"
	"time"

	"github.com/Trisia/randomness"
	"github.com/Trisia/randomness/detect"
)

func init() { register("workflow", workflowCmd) }

const wordMul = 2654435761
const wordInv = 244002641 // wordMul * wordInv == 1 (mod 2^32)

type StreamSpec struct {
	Bytes  []int  `json:"bytes"` // kind "bytes": explicit content (then zeros)
	Kind   string `json:"kind"`  // self | const | periodic | seeded | bytes
	Byte   int    `json:"byte"`
	Period []int  `json:"period"`
	Seed   int64  `json:"seed"`
	Salt   uint32 `json:"salt"`
	Len    int64  `json:"len"` // total bytes available (-1: unlimited)
}

type ReaderSpec struct {
	Policy      string `json:"policy"` // full | one | fixed | random | allbutone | halves | straddle
	Size        int    `json:"size"`
	Seed        int64  `json:"seed"`
	FailAt      int64  `json:"failAt"`      // byte offset at which the source fails (-1: never)
	FailKind    string `json:"failKind"`    // eof | custom | partial | unexpected | temporary (error with Temporary() = true) | transient / temptransient (one failed Read, then the source recovers) | parttransient (one Read returns bytes AND an error, then the source recovers)
	EOFWithData bool   `json:"eofWithData"` // the Read that delivers the stream's last bytes returns io.EOF with them
	SeekAble    bool   `json:"seekable"`    // present the source as io.ReaderAt + io.Seeker too
	DelayUs     int    `json:"delayUs"`     // random sleep (0..DelayUs) inside Read, after the bytes are taken
	Splits      []int  `json:"splits"`      // policy "script": k-th Read returns Splits[k]/SplitC of a sample (TLC-simulated short reads)
	SplitC      int    `json:"splitC"`
	SampleB     int    `json:"sampleB"`
}

type ItemPlan struct {
	Pass  int     `json:"pass"`  // number of samples that pass
	Hist  [10]int `json:"hist"`  // Q histogram over the s samples
	QMode string  `json:"qmode"` // center | edge | edgehi
	// FailBin > 0: the failing samples are those whose Q lies in bin FailBin (as far as there are enough), so a
	// failing sample carries a Q value well away from 0 (two-sided items: P small, Q near 1)
	FailBin int `json:"failbin"`
}

type WJob struct {
	ID           int        `json:"id"`
	Fn           string     `json:"fn"`
	Mode         string     `json:"mode"` // stub | real
	Items        []ItemPlan `json:"items"`
	PlanSeed     int64      `json:"planSeed"`
	Conc         int        `json:"conc"` // > 0: single-shot jobs with the same number run simultaneously
	NumByte      int        `json:"numByte"`
	Reader       ReaderSpec `json:"reader"`
	Stream       StreamSpec `json:"stream"`
	TimeoutMs    int        `json:"timeoutMs"`
	RoundDelayUs int        `json:"roundDelayUs"`
	LogReads     bool       `json:"logReads"`
	NoMatrix     bool       `json:"noMatrix"`
	Gate         string     `json:"gate"`  // "" | barrier | straggler | order : schedule control inside the stub runners
	Order        []int      `json:"order"` // gate "order": completion order of the samples (from a TLC-simulated behaviour)
	MustReject   bool       `json:"mustreject"`
	Tag          string     `json:"tag"`
}

type fnInfo struct {
	s, sb, items int
	fast         bool
	call         func(io.Reader) (bool, error)
}

func fnTable(name string) (fnInfo, bool) {
	switch name {
	case "FactoryDetect":
		return fnInfo{50, 125000, 15, false, detect.FactoryDetect}, true
	case "PowerOnDetect":
		return fnInfo{20, 125000, 15, false, detect.PowerOnDetect}, true
	case "PeriodDetect":
		return fnInfo{20, 2500, 12, false, detect.PeriodDetect}, true
	case "FactoryDetectFast":
		return fnInfo{50, 125000, 15, true, detect.FactoryDetectFast}, true
	case "PowerOnDetectFast":
		return fnInfo{20, 125000, 15, true, detect.PowerOnDetectFast}, true
	case "PeriodDetectFast":
		return fnInfo{20, 2500, 12, true, detect.PeriodDetectFast}, true
	}
	return fnInfo{}, false
}

// ---------------------------------------------------------------- stream
func streamByte(sp *StreamSpec, o int64) byte {
	switch sp.Kind {
	case "bytes":
		if o < int64(len(sp.Bytes)) {
			return byte(sp.Bytes[o])
		}
		return 0
	case "const":
		return byte(sp.Byte)
	case "periodic":
		return byte(sp.Period[int(o%int64(len(sp.Period)))])
	case "seeded":
		// SplitMix-like hash of (seed, offset/8), byte o%8
		z := uint64(sp.Seed)*0x9E3779B97F4A7C15 + uint64(o/8)*0xBF58476D1CE4E5B9 + 0x94D049BB133111EB
		z = (z ^ (z >> 30)) * 0xBF58476D1CE4E5B9
		z = (z ^ (z >> 27)) * 0x94D049BB133111EB
		z = z ^ (z >> 31)
		return byte(z >> (8 * uint(o%8)))
	default: // self-describing: 32-bit word w = o/4 carries w*wordMul + salt (big endian)
		w := uint32(o / 4)
		v := w*wordMul + sp.Salt
		return byte(v >> (8 * uint(3-o%4)))
	}
}

func fillStream(sp *StreamSpec, off int64, p []byte) {
	if (sp.Kind == "" || sp.Kind == "self") && off%4 == 0 {
		n4 := len(p) / 4
		w := uint32(off / 4)
		for k := 0; k < n4; k++ {
			binary.BigEndian.PutUint32(p[4*k:], (w+uint32(k))*wordMul+sp.Salt)
		}
		for i := 4 * n4; i < len(p); i++ {
			p[i] = streamByte(sp, off+int64(i))
		}
		return
	}
	for i := range p {
		p[i] = streamByte(sp, off+int64(i))
	}
}

// decodeSample checks that buf is exactly stream[start:start+len(buf)] of a self-describing stream.
// Returns start (or -1) and the index of the first byte that does not match (or -1).
func decodeSample(sp *StreamSpec, buf []byte) (int64, int) {
	if len(buf) < 4 {
		return -1, 0
	}
	v := binary.BigEndian.Uint32(buf[0:4])
	w := (v - sp.Salt) * wordInv
	start := int64(w) * 4
	if sp.Kind == "" || sp.Kind == "self" {
		n4 := len(buf) / 4
		for k := 0; k < n4; k++ {
			exp := (w+uint32(k))*wordMul + sp.Salt
			if binary.BigEndian.Uint32(buf[4*k:4*k+4]) != exp {
				for i := 4 * k; i < 4*k+4; i++ {
					if buf[i] != streamByte(sp, start+int64(i)) {
						return start, i
					}
				}
			}
		}
		for i := 4 * n4; i < len(buf); i++ {
			if buf[i] != streamByte(sp, start+int64(i)) {
				return start, i
			}
		}
		return start, -1
	}
	for i := range buf {
		if buf[i] != streamByte(sp, start+int64(i)) {
			return start, i
		}
	}
	return start, -1
}

// ---------------------------------------------------------------- events
type Event map[string]interface{}

type recorder struct {
	mu     sync.Mutex
	seq    int
	events []Event
}

func (r *recorder) add(e Event) {
	r.mu.Lock()
	r.seq++
	e["seq"] = r.seq
	r.events = append(r.events, e)
	r.mu.Unlock()
}

// ---------------------------------------------------------------- reader
var leaksSeen int // jobs of this process after which goroutines stayed behind

var errCustom = errors.New("verif: injected source failure")

// tempError is what sockets, pipes and device files return for EAGAIN / EINTR / a deadline: an error like any other
// as far as the workflows' contract goes, but one that retry helpers like to treat specially.
type tempError struct{}

func (tempError) Error() string {
	return "verif: injected temporary source failure (resource temporarily unavailable)"
}
func (tempError) Temporary() bool { return true }
func (tempError) Timeout() bool   { return true }

var errTemp error = tempError{}

type obsReader struct {
	mu      sync.Mutex
	sp      *StreamSpec
	rs      *ReaderSpec
	rng     *rand.Rand
	drng    *rand.Rand
	off     int64
	reads   int
	maxReq  int64 // highest offset+1 ever requested
	failed  bool
	rec     *recorder
	logAll  bool
	shorts  int
	inRead  int32
	overlap bool
}

// obsSeekReader is the same source presented as a random-access one (io.ReaderAt + io.Seeker, as bytes.Reader and *os.File
// are): a workflow is free to use those methods, but what it judges must still be the stream's bytes, and a stream that
// ends early or fails must still be reported.
type obsSeekReader struct {
	*obsReader
	pos int64
}

func (s *obsSeekReader) Read(p []byte) (int, error) {
	n, err := s.obsReader.Read(p)
	s.obsReader.mu.Lock()
	s.pos = s.obsReader.off
	s.obsReader.mu.Unlock()
	return n, err
}

func (s *obsSeekReader) Seek(offset int64, whence int) (int64, error) {
	r := s.obsReader
	r.mu.Lock()
	defer r.mu.Unlock()
	switch whence {
	case io.SeekStart:
		r.off = offset
	case io.SeekCurrent:
		r.off += offset
	case io.SeekEnd:
		if r.sp.Len < 0 {
			return 0, errors.New("verif: endless stream has no end to seek from")
		}
		r.off = r.sp.Len + offset
	}
	if r.off < 0 {
		r.off = 0
	}
	return r.off, nil
}

func (s *obsSeekReader) ReadAt(p []byte, off int64) (int, error) {
	r := s.obsReader
	r.mu.Lock()
	defer r.mu.Unlock()
	r.reads++
	n := len(p)
	var err error
	if off+int64(n) > r.maxReq {
		r.maxReq = off + int64(n)
	}
	if r.sp.Len >= 0 && off+int64(n) > r.sp.Len {
		n = int(r.sp.Len - off)
		if n < 0 {
			n = 0
		}
		err = io.EOF
	}
	if r.rs.FailAt >= 0 && off+int64(n) > r.rs.FailAt {
		n = int(r.rs.FailAt - off)
		if n < 0 {
			n = 0
		}
		err = r.failErr()
	}
	if n > 0 {
		fillStream(r.sp, off, p[:n])
	}
	if off+int64(n) > r.off {
		r.off = off + int64(n) // consumption is counted as the furthest byte handed out
	}
	if err != nil {
		r.failed = true
		r.rec.add(Event{"ev": "read", "off": off, "req": len(p), "n": n, "err": true})
	}
	return n, err
}

func (r *obsReader) Read(p []byte) (int, error) {
	r.mu.Lock()
	r.reads++
	n := len(p)
	if n == 0 {
		r.mu.Unlock()
		return 0, nil
	}
	want := n
	switch r.rs.Policy {
	case "one":
		n = 1
	case "fixed":
		if r.rs.Size > 0 && n > r.rs.Size {
			n = r.rs.Size
		}
	case "random":
		n = 1 + r.rng.Intn(n)
	case "allbutone":
		if n > 1 {
			n = n - 1
		}
	case "halves":
		if n > 1 {
			n = (n + 1) / 2
		}
	case "fullthenshort": // the first Read fills the buffer, every later one delivers about half of what is asked
		if r.reads > 1 && n > 1 {
			n = (n + 1) / 2
		}
	case "script":
		if len(r.rs.Splits) > 0 && r.rs.SplitC > 0 && r.rs.SampleB > 0 {
			k := r.rs.Splits[(r.reads-1)%len(r.rs.Splits)]
			m := r.rs.SampleB * k / r.rs.SplitC
			if m < 1 {
				m = 1
			}
			if m < n {
				n = m
			}
		}
	case "straddle": // bufio-like: deliver up to Size bytes aligned to multiples of Size of the stream offset
		if r.rs.Size > 0 {
			room := int(int64(r.rs.Size) - r.off%int64(r.rs.Size))
			if n > room {
				n = room
			}
		}
	}
	if r.off+int64(want) > r.maxReq {
		r.maxReq = r.off + int64(want)
	}
	var err error
	// stream end
	if r.sp.Len >= 0 && r.off+int64(n) > r.sp.Len {
		n = int(r.sp.Len - r.off)
		if n <= 0 {
			n = 0
			err = io.EOF
		}
	}
	if r.rs.EOFWithData && r.sp.Len >= 0 && n > 0 && r.off+int64(n) == r.sp.Len {
		err = io.EOF // the last bytes arrive together with io.EOF (as iotest.DataErrReader and many real sources do)
	}
	// injected failure at byte offset FailAt
	if r.rs.FailAt >= 0 && err == nil && r.rs.FailKind == "parttransient" {
		// one Read returns some bytes TOGETHER with an error; afterwards the source delivers again
		if !r.failed && r.off+int64(n) > r.rs.FailAt {
			if r.off < r.rs.FailAt {
				n = int(r.rs.FailAt - r.off)
			} else if n > 1 {
				n = 1
			}
			// never together with the bytes that complete the caller's request: io.ReadFull drops such an error by contract
			// (a final Read may legitimately return the last bytes with io.EOF), and the property speaks of errors that
			// arrive before all required bytes were delivered
			if n >= want {
				n = want - 1
			}
			err = errCustom
		}
	} else if r.rs.FailAt >= 0 && err == nil && (r.rs.FailKind == "transient" || r.rs.FailKind == "temptransient") {
		if !r.failed && r.off+int64(n) > r.rs.FailAt {
			if r.off >= r.rs.FailAt {
				n = 0
			} else {
				n = int(r.rs.FailAt - r.off)
			}
			if n == 0 {
				err = errCustom
				if r.rs.FailKind == "temptransient" {
					err = errTemp
				}
			}
		}
	} else if r.rs.FailAt >= 0 && err == nil {
		if r.off >= r.rs.FailAt {
			n = 0
			err = r.failErr()
		} else if r.off+int64(n) > r.rs.FailAt {
			n = int(r.rs.FailAt - r.off)
			if r.rs.FailKind == "partial" {
				err = r.failErr() // error returned together with the partial read
			}
		} else if r.off+int64(n) == r.rs.FailAt && r.rs.FailKind == "partial" && n > 0 {
			// bytes up to FailAt delivered together with the error
			err = r.failErr()
		}
	}
	if n > 0 {
		fillStream(r.sp, r.off, p[:n])
	}
	off := r.off
	r.off += int64(n)
	if err != nil {
		r.failed = true
	}
	if n < want {
		r.shorts++
	}
	if r.logAll || err != nil {
		e := Event{"ev": "read", "off": off, "req": want, "n": n, "err": err != nil}
		r.rec.add(e)
	}
	var d time.Duration
	if r.rs.DelayUs > 0 {
		d = time.Duration(r.drng.Intn(r.rs.DelayUs+1)) * time.Microsecond
	}
	r.mu.Unlock()
	if d > 0 {
		time.Sleep(d)
	}
	return n, err
}

func (r *obsReader) failErr() error {
	switch r.rs.FailKind {
	case "eof":
		return io.EOF
	case "unexpected":
		return io.ErrUnexpectedEOF
	case "temporary":
		return errTemp
	default:
		return errCustom
	}
}

// ---------------------------------------------------------------- stubs
type gateState struct {
	mu       sync.Mutex
	cond     *sync.Cond
	waiting  int   // workers parked at the barrier
	released int   // barrier generation
	done     int   // samples whose round has completed
	first    int64 // start offset of the straggler's sample (-1: none yet)
	doneSet  map[int]bool
	timeouts int
}

type stubCtx struct {
	gate   *gateState
	job    *WJob
	info   fnInfo
	rec    *recorder
	plan   [][]planned // [sample][item]
	drng   *rand.Rand
	dmu    sync.Mutex
	active bool
}

type planned struct {
	pass bool
	q    float64
}

var (
	curMu  sync.RWMutex
	cur    *stubCtx
	origTM []randomness.TestItem
)

func buildPlan(j *WJob, info fnInfo) [][]planned {
	s := info.s
	plan := make([][]planned, s)
	for i := range plan {
		plan[i] = make([]planned, 15)
		for k := range plan[i] {
			plan[i][k] = planned{true, (float64(i%10) + 0.5) / 10}
		}
	}
	rng := rand.New(rand.NewSource(j.PlanSeed))
	for k, ip := range j.Items {
		if k >= 15 {
			break
		}
		perm := rng.Perm(s)
		for n, smp := range perm {
			plan[smp][k].pass = n < ip.Pass
		}
		// expand histogram
		bins := make([]int, 0, s)
		for b, c := range ip.Hist {
			for x := 0; x < c; x++ {
				bins = append(bins, b)
			}
		}
		for len(bins) < s {
			bins = append(bins, len(bins)%10)
		}
		rng.Shuffle(len(bins), func(a, b int) { bins[a], bins[b] = bins[b], bins[a] })
		for smp := 0; smp < s; smp++ {
			b := bins[smp]
			var q float64
			switch ip.QMode {
			case "edge": // exactly on the lower edge of the bin: 0.0, 0.1, ... 0.9
				q = float64(b) / 10
			case "edgebelow": // a hair (1e-7) below the upper edge of the bin: rounding to six decimals would move it up
				if b == 9 {
					q = 0.95
				} else {
					q = float64(b+1)/10 - 1e-7
				}
			case "edgehi": // bin 9 as exactly 1.0, others just below the upper edge
				if b == 9 {
					q = 1.0
				} else {
					q = float64(b)/10 + 0.09999
				}
			default:
				q = (float64(b) + 0.5) / 10
			}
			plan[smp][k].q = q
		}
		if ip.FailBin > 0 && ip.FailBin < 10 {
			var in, outb []int
			for _, smp := range perm {
				if bins[smp] == ip.FailBin {
					in = append(in, smp)
				} else {
					outb = append(outb, smp)
				}
			}
			ord := append(in, outb...) // failing samples first, taken from the requested bin
			nf := s - ip.Pass
			for n, smp := range ord {
				plan[smp][k].pass = n >= nf
			}
		}
	}
	return plan
}

func stubRunner(item int) randomness.TestFunc {
	return func(data []byte) *randomness.TestResult {
		curMu.RLock()
		c := cur
		curMu.RUnlock()
		name := fmt.Sprintf("item%02d", item+1)
		if c == nil || !c.active {
			return &randomness.TestResult{Name: name, P: 0, Q: 0, Pass: false}
		}
		start, bad := decodeSample(&c.job.Stream, data)
		smp := -1
		if bad < 0 && len(data) == c.info.sb && start%int64(c.info.sb) == 0 && start/int64(c.info.sb) < int64(c.info.s) {
			smp = int(start / int64(c.info.sb))
		}
		e := Event{"ev": "round", "item": item + 1, "start": start, "bad": bad, "len": len(data), "sample": smp}
		if bad >= 0 && bad < len(data) {
			// where did the first wrong byte come from? decode the word it sits in (diagnostic only)
			e["badbyte"] = int(data[bad])
		}
		c.rec.add(e)
		if item == 0 && c.gate != nil {
			c.gate.park(c, start)
		}
		if c.job.RoundDelayUs > 0 {
			c.dmu.Lock()
			d := time.Duration(c.drng.Intn(c.job.RoundDelayUs+1)) * time.Microsecond
			c.dmu.Unlock()
			time.Sleep(d)
		}
		if item == c.info.items-1 && smp >= 0 {
			// the buffer must still hold the same sample at the end of the round (another worker refilling a
			// shared buffer while this one is judging would show here)
			if st2, bad2 := decodeSample(&c.job.Stream, data); bad2 >= 0 || st2 != start {
				c.rec.add(Event{"ev": "round", "item": item + 1, "start": st2, "bad": bad2, "len": len(data), "sample": -1, "changed": true})
				smp = -1
			}
			if c.gate != nil {
				if c.job.Gate == "order" {
					c.gate.awaitTurn(c, smp)
				}
				c.gate.finishedSample(smp)
			}
		}
		if smp < 0 {
			// a corrupt / stale / misaligned sample: answer with a failing result
			return &randomness.TestResult{Name: name, P: 0, Q: 0, Pass: false}
		}
		pl := c.plan[smp][item]
		p, p2 := 0.5, 0.0
		if !pl.pass {
			p = 0.001
		}
		if item == 3 {
			// the overlapping-subsequence item has two P-values and passes iff both do: a failing sample fails on either
			// one (so "Pass" cannot be re-derived from P alone)
			p2 = 0.5
			if !pl.pass && smp%2 == 0 {
				p, p2 = 0.5, 0.001
			}
		}
		return &randomness.TestResult{Name: name, P: p, Q: pl.q, P2: p2, Q2: p2, Pass: pl.pass}
	}
}

// park implements the two schedule families:
//
//	barrier  : hold every worker at the start of its round until min(W, remaining samples) workers are parked,
//	           then release them together (simultaneous publishes into counters and result slots)
//	straggler: the worker that received the first sample is held until every other sample has been judged
//	           (the decision must wait for it; its buffer must survive all the other reads)
func (g *gateState) park(c *stubCtx, start int64) {
	g.mu.Lock()
	defer g.mu.Unlock()
	total := c.info.s
	switch c.job.Gate {
	case "barrier":
		w := runtime.NumCPU()
		gen := g.released
		g.waiting++
		need := w
		if rem := total - g.done; rem < need {
			need = rem
		}
		if g.waiting >= need {
			g.waiting = 0
			g.released++
			g.cond.Broadcast()
			return
		}
		deadline := time.Now().Add(300 * time.Millisecond)
		for g.released == gen && time.Now().Before(deadline) {
			g.timedWait(20 * time.Millisecond)
		}
		if g.released == gen { // not enough workers will come (fewer workers than expected): let go
			g.waiting = 0
			g.released++
			g.cond.Broadcast()
		}
	case "straggler":
		if g.first < 0 {
			g.first = start
		}
		if g.first == start && runtime.NumCPU() > 1 {
			deadline := time.Now().Add(2 * time.Second)
			for g.done < total-1 && time.Now().Before(deadline) {
				g.timedWait(20 * time.Millisecond)
			}
		}
	}
}

func (g *gateState) timedWait(d time.Duration) {
	t := time.AfterFunc(d, func() { g.mu.Lock(); g.cond.Broadcast(); g.mu.Unlock() })
	g.cond.Wait()
	t.Stop()
}

func (g *gateState) finishedSample(smp int) {
	g.mu.Lock()
	g.done++
	if g.doneSet != nil {
		g.doneSet[smp] = true
	}
	g.cond.Broadcast()
	g.mu.Unlock()
}

// awaitTurn holds the worker at the end of its round until every sample that completes earlier in the
// TLC-simulated behaviour has completed; a schedule the code cannot follow times out and is only counted
func (g *gateState) awaitTurn(c *stubCtx, smp int) {
	g.mu.Lock()
	defer g.mu.Unlock()
	pos := -1
	for i, v := range c.job.Order {
		if v == smp {
			pos = i
			break
		}
	}
	if pos < 0 {
		return
	}
	deadline := time.Now().Add(400 * time.Millisecond)
	for {
		ok := true
		for q := 0; q < pos; q++ {
			if !g.doneSet[c.job.Order[q]] {
				ok = false
				break
			}
		}
		if ok {
			return
		}
		if !time.Now().Before(deadline) {
			g.timeouts++
			return
		}
		g.timedWait(10 * time.Millisecond)
	}
}

func installStubs() {
	if origTM == nil {
		origTM = randomness.TestMethodArr
	}
	st := make([]randomness.TestItem, 15)
	for i := range st {
		st[i] = randomness.TestItem{Name: fmt.Sprintf("item%02d", i+1), Runner: stubRunner(i)}
	}
	randomness.TestMethodArr = st
}

func restoreRegistry() {
	if origTM != nil {
		randomness.TestMethodArr = origTM
	}
}

func namedItem(err error, names []randomness.TestItem) int {
	if err == nil {
		return 0
	}
	msg := err.Error()
	best := 0
	for i, it := range names {
		if strings.HasPrefix(msg, it.Name+" ") {
			best = i + 1
		}
	}
	return best
}

// ---------------------------------------------------------------- one job
func runWorkflowJob(j *WJob) map[string]interface{} {
	res := map[string]interface{}{"id": j.ID, "fn": j.Fn, "tag": j.Tag, "mode": j.Mode}
	rec := &recorder{}
	rd := &obsReader{sp: &j.Stream, rs: &j.Reader, rng: rand.New(rand.NewSource(j.Reader.Seed)),
		drng: rand.New(rand.NewSource(j.Reader.Seed + 7)), rec: rec, logAll: j.LogReads}
	var info fnInfo
	single := j.Fn == "SingleDetect"
	if !single {
		var ok bool
		info, ok = fnTable(j.Fn)
		if !ok {
			res["error"] = "unknown fn"
			return res
		}
	}
	var ctx *stubCtx
	if j.Mode == "stub" && !single {
		installStubs()
		ctx = &stubCtx{job: j, info: info, rec: rec, plan: buildPlan(j, info), drng: rand.New(rand.NewSource(j.PlanSeed + 3)), active: true}
		if j.Gate != "" {
			ctx.gate = &gateState{first: -1, doneSet: map[int]bool{}}
			ctx.gate.cond = sync.NewCond(&ctx.gate.mu)
		}
		curMu.Lock()
		cur = ctx
		curMu.Unlock()
	} else {
		restoreRegistry()
	}
	names := randomness.TestMethodArr
	runtime.GC()
	time.Sleep(time.Millisecond)
	g0 := runtime.NumGoroutine()
	type ret struct {
		ok    bool
		err   error
		panic interface{}
	}
	done := make(chan ret, 1)
	t0 := time.Now()
	go func() {
		var r ret
		defer func() {
			if p := recover(); p != nil {
				r.panic = p
			}
			done <- r
		}()
		if single {
			r.ok, r.err = detect.SingleDetect(rd, j.NumByte)
		} else {
			if j.Reader.SeekAble {
				r.ok, r.err = info.call(&obsSeekReader{obsReader: rd})
			} else {
				r.ok, r.err = info.call(rd)
			}
		}
	}()
	to := time.Duration(j.TimeoutMs) * time.Millisecond
	if to <= 0 {
		to = 20 * time.Second
	}
	var r ret
	hang := false
	// watchdog: a hang is declared only when a full timeout period passes without any progress
	// (no Read call, no runner call) -- slow progress under load or injected delays is not a hang
	progress := func() int {
		rd.mu.Lock()
		a := rd.reads
		rd.mu.Unlock()
		rec.mu.Lock()
		b := rec.seq
		rec.mu.Unlock()
		return a + b
	}
	last := progress()
waitLoop:
	for {
		select {
		case r = <-done:
			break waitLoop
		case <-time.After(to):
			now := progress()
			if now == last || time.Since(t0) > 30*time.Minute {
				hang = true
				break waitLoop
			}
			last = now
		}
	}
	el := time.Since(t0)
	res["elapsed_ms"] = float64(el.Microseconds()) / 1000
	if hang {
		buf := make([]byte, 1<<16)
		n := runtime.Stack(buf, true)
		res["hang"] = true
		dump := string(buf[:n])
		res["dump_has_wait"] = strings.Contains(dump, "sync.(*WaitGroup).Wait") || strings.Contains(dump, "chan send") || strings.Contains(dump, "chan receive")
		if len(dump) > 6000 {
			dump = dump[:6000]
		}
		res["dump"] = dump
	} else {
		res["hang"] = false
		if r.panic != nil {
			res["panic"] = fmt.Sprint(r.panic)
		}
		rec.mu.Lock()
		seqAtReturn := rec.seq
		rec.mu.Unlock()
		res["verdict"] = r.ok
		res["haserr"] = r.err != nil
		if r.err != nil {
			res["err"] = r.err.Error()
		}
		res["named"] = namedItem(r.err, names)
		// goroutine settle: workers exit after close(jobs)
		leak := 0
		settle := 2000
		if leaksSeen >= 3 {
			settle = 60 // a tree that leaks goroutines has been seen to do so: still counted, no longer waited for at length
		}
		for w := 0; w < settle; w++ { // up to 10 s, only spent while goroutines are still around
			leak = runtime.NumGoroutine() - g0
			if leak <= 0 {
				break
			}
			time.Sleep(5 * time.Millisecond)
		}
		res["leak"] = leak
		if leak > 0 {
			leaksSeen++
		}
		// anything a worker still does after the workflow has returned (a runner call, a Read) means the
		// decision was taken before the barrier
		time.Sleep(2 * time.Millisecond)
		rec.mu.Lock()
		res["late"] = rec.seq - seqAtReturn
		rec.mu.Unlock()
		if leak > 0 {
			buf := make([]byte, 1<<16)
			n := runtime.Stack(buf, true)
			d := string(buf[:n])
			if len(d) > 6000 {
				d = d[:6000]
			}
			res["dump"] = d
		}
	}
	if ctx != nil {
		ctx.active = false
		if ctx.gate != nil {
			ctx.gate.mu.Lock()
			res["gate_timeouts"] = ctx.gate.timeouts
			ctx.gate.mu.Unlock()
		}
	}
	rd.mu.Lock()
	res["reads"] = rd.reads
	res["shorts"] = rd.shorts
	res["consumed"] = rd.off
	res["maxreq"] = rd.maxReq
	res["srcfailed"] = rd.failed
	rd.mu.Unlock()
	rec.mu.Lock()
	res["events"] = compactEvents(rec.events, info)
	rec.mu.Unlock()
	res["numcpu"] = runtime.NumCPU()
	res["gomaxprocs"] = runtime.GOMAXPROCS(0)
	if j.Mode == "real" && !single && !hang && j.Stream.Len < 0 && !j.NoMatrix {
		realMatrix(j, info, names, res)
	}
	if false {
		// (moved to realMatrix)
		passM := make([][]bool, info.items)
		qsM := make([][]string, info.items)
		buf := make([]byte, info.sb)
		for k := 0; k < info.items; k++ {
			passM[k] = make([]bool, info.s)
			qsM[k] = make([]string, info.s)
		}
		func() {
			defer func() {
				if p := recover(); p != nil {
					res["matrix_panic"] = fmt.Sprint(p)
				}
			}()
			for i := 0; i < info.s; i++ {
				fillStream(&j.Stream, int64(i)*int64(info.sb), buf)
				for k := 0; k < info.items; k++ {
					r := names[k].Runner(buf)
					passM[k][i] = r.Pass
					qsM[k][i] = F(r.Q)
				}
			}
			res["pass"] = passM
			res["qs"] = qsM
		}()
	}
	if single && j.NumByte > 0 && j.NumByte <= 1<<22 {
		// proxy summary of the content SingleDetect was offered: pattern histograms for m = 2, 4, 8 (MSB-first bits)
		content := make([]byte, j.NumByte)
		fillStream(&j.Stream, 0, content)
		h2 := make([]int, 4)
		h4 := make([]int, 16)
		h8 := make([]int, 256)
		for _, b := range content {
			h8[b]++
			h4[b>>4]++
			h4[b&15]++
			h2[b>>6]++
			h2[(b>>4)&3]++
			h2[(b>>2)&3]++
			h2[b&3]++
		}
		res["h2"], res["h4"], res["h8"] = h2, h4, h8
	}
	if !single {
		res["s"] = info.s
		res["sb"] = info.sb
		res["items"] = info.items
	}
	return res
}

// compactEvents merges the per-item round events of one sample (same goroutine order) into one
// event per (sample buffer) carrying the list of items in the order they ran.
func compactEvents(ev []Event, info fnInfo) []Event {
	out := []Event{}
	type key struct {
		start int64
		bad   int
	}
	open := map[key]int{} // index in out of the currently growing round event for this buffer
	for _, e := range ev {
		if e["ev"] != "round" {
			out = append(out, e)
			continue
		}
		k := key{e["start"].(int64), e["bad"].(int)}
		item := e["item"].(int)
		if idx, ok := open[k]; ok && item != 1 {
			out[idx]["items"] = append(out[idx]["items"].([]int), item)
			continue
		}
		ne := Event{"ev": "round", "start": e["start"], "bad": e["bad"], "len": e["len"], "sample": e["sample"], "items": []int{item}, "seq": e["seq"]}
		out = append(out, ne)
		open[k] = len(out) - 1
	}
	return out
}

// realMatrix: the matrix the workflow must have seen -- the registry runners applied directly to each sample of the stream
func realMatrix(j *WJob, info fnInfo, names []randomness.TestItem, res map[string]interface{}) {
	passM := make([][]bool, info.items)
	qsM := make([][]string, info.items)
	buf := make([]byte, info.sb)
	for k := 0; k < info.items; k++ {
		passM[k] = make([]bool, info.s)
		qsM[k] = make([]string, info.s)
	}
	defer func() {
		if p := recover(); p != nil {
			res["matrix_panic"] = fmt.Sprint(p)
		}
	}()
	for i := 0; i < info.s; i++ {
		fillStream(&j.Stream, int64(i)*int64(info.sb), buf)
		for k := 0; k < info.items; k++ {
			r := names[k].Runner(buf)
			passM[k][i] = r.Pass
			qsM[k][i] = F(r.Q)
		}
	}
	res["pass"] = passM
	res["qs"] = qsM
}

// runWorkflowLite: one real-mode workflow call without the process-wide bookkeeping of runWorkflowJob, so that several
// calls can overlap (two self-tests at once, or one started from inside another caller's code)
func runWorkflowLite(j *WJob) map[string]interface{} {
	res := map[string]interface{}{"id": j.ID, "fn": j.Fn, "tag": j.Tag, "mode": j.Mode, "hang": false, "leak": 0, "late": 0, "events": []Event{}}
	info, ok := fnTable(j.Fn)
	if !ok {
		res["error"] = "unknown fn"
		return res
	}
	rec := &recorder{}
	rd := &obsReader{sp: &j.Stream, rs: &j.Reader, rng: rand.New(rand.NewSource(j.Reader.Seed)),
		drng: rand.New(rand.NewSource(j.Reader.Seed + 7)), rec: rec}
	names := randomness.TestMethodArr
	func() {
		defer func() {
			if p := recover(); p != nil {
				res["panic"] = fmt.Sprint(p)
			}
		}()
		v, err := info.call(rd)
		res["verdict"] = v
		res["haserr"] = err != nil
		res["named"] = namedItem(err, names)
	}()
	rd.mu.Lock()
	res["consumed"] = rd.off
	res["maxreq"] = rd.maxReq
	rd.mu.Unlock()
	res["s"], res["sb"], res["items"] = info.s, info.sb, info.items
	return res
}

// runSingleLite: one SingleDetect call without the process-wide bookkeeping of runWorkflowJob (goroutine counts, registry
// switching), so that several can run at once
func runSingleLite(j *WJob) map[string]interface{} {
	res := map[string]interface{}{"id": j.ID, "fn": j.Fn, "tag": j.Tag, "mode": j.Mode, "hang": false}
	rec := &recorder{}
	rd := &obsReader{sp: &j.Stream, rs: &j.Reader, rng: rand.New(rand.NewSource(j.Reader.Seed)),
		drng: rand.New(rand.NewSource(j.Reader.Seed + 7)), rec: rec}
	func() {
		defer func() {
			if p := recover(); p != nil {
				res["panic"] = fmt.Sprint(p)
			}
		}()
		ok, err := detect.SingleDetect(rd, j.NumByte)
		res["verdict"] = ok
		res["haserr"] = err != nil
	}()
	rd.mu.Lock()
	res["consumed"] = rd.off
	res["maxreq"] = rd.maxReq
	rd.mu.Unlock()
	if j.NumByte > 0 {
		content := make([]byte, j.NumByte)
		fillStream(&j.Stream, 0, content)
		h2 := make([]int, 4)
		h4 := make([]int, 16)
		h8 := make([]int, 256)
		for _, b := range content {
			h8[b]++
			h4[b>>4]++
			h4[b&15]++
			h2[b>>6]++
			h2[(b>>4)&3]++
			h2[(b>>2)&3]++
			h2[b&3]++
		}
		res["h2"], res["h4"], res["h8"] = h2, h4, h8
	}
	return res
}

func workflowCmd(job []byte, out *Out) error {
	var js struct {
		Jobs []WJob `json:"jobs"`
	}
	if err := json.Unmarshal(job, &js); err != nil {
		return err
	}
	hangs := 0
	for i := 0; i < len(js.Jobs); i++ {
		if js.Jobs[i].Conc > 0 && js.Jobs[i].Fn == "SingleDetect" {
			// a run of single-shot jobs with the same group number executes simultaneously (each on its own source), behind a
			// start barrier, eight rounds; every execution is reported and judged on its own
			k := i
			for k < len(js.Jobs) && js.Jobs[k].Conc == js.Jobs[i].Conc && js.Jobs[k].Fn == "SingleDetect" {
				k++
			}
			restoreRegistry()
			group := js.Jobs[i:k]
			results := make([]map[string]interface{}, len(group))
			for round := 0; round < 8; round++ {
				var wg sync.WaitGroup
				start := make(chan struct{})
				for g := range group {
					wg.Add(1)
					go func(g int) {
						defer wg.Done()
						<-start
						r := runSingleLite(&group[g])
						if results[g] == nil || r["verdict"] != results[g]["verdict"] || r["haserr"] != results[g]["haserr"] || r["panic"] != nil {
							if results[g] != nil {
								r["unstable"] = true
							}
							results[g] = r
						}
					}(g)
				}
				close(start)
				wg.Wait()
			}
			for _, r := range results {
				out.Emit(r)
			}
			out.Flush()
			i = k - 1
			continue
		}
		if js.Jobs[i].Conc > 0 && js.Jobs[i].Mode == "real" && js.Jobs[i].Fn != "SingleDetect" {
			// overlapping calls of the real workflows (each on its own source): released together, three rounds; the result that
			// deviates from the first round is kept; the matrix each call must have seen is computed afterwards, one at a time
			k := i
			for k < len(js.Jobs) && js.Jobs[k].Conc == js.Jobs[i].Conc && js.Jobs[k].Mode == "real" && js.Jobs[k].Fn != "SingleDetect" {
				k++
			}
			restoreRegistry()
			group := js.Jobs[i:k]
			results := make([]map[string]interface{}, len(group))
			for round := 0; round < 3; round++ {
				var wg sync.WaitGroup
				start := make(chan struct{})
				for g := range group {
					wg.Add(1)
					go func(g int) {
						defer wg.Done()
						<-start
						r := runWorkflowLite(&group[g])
						if results[g] == nil || r["verdict"] != results[g]["verdict"] || r["named"] != results[g]["named"] || r["panic"] != nil {
							results[g] = r
						}
					}(g)
				}
				close(start)
				wg.Wait()
			}
			for g, r := range results {
				if info, ok := fnTable(group[g].Fn); ok && group[g].Stream.Len < 0 {
					realMatrix(&group[g], info, randomness.TestMethodArr, r)
				}
				out.Emit(r)
			}
			out.Flush()
			i = k - 1
			continue
		}
		if hangs >= 3 {
			// enough evidence; do not spend a watchdog period on every remaining job
			out.Emit(map[string]interface{}{"id": js.Jobs[i].ID, "fn": js.Jobs[i].Fn, "skipped": true})
			continue
		}
		res := runWorkflowJob(&js.Jobs[i])
		if h, _ := res["hang"].(bool); h {
			hangs++
		}
		out.Emit(res)
		out.Flush()
	}
	restoreRegistry()
	return nil
}
