package main

// C17 driver: runs a test on x and on tau(x) for every (test, transformation) pair the
// specification's table claims, for documented parameters and for transformation parameters
// (rotation amounts, block permutations, tail contents) drawn from the seed.

import (
	"encoding/json"
	"fmt"
	"math/rand"
)

func init() { register("symmetry", symmetryCmd) }

func idxOf(t string) int {
	for i, s := range testIDs {
		if s == t {
			return i + 1
		}
	}
	return 0
}

func complement(x []bool) []bool {
	y := make([]bool, len(x))
	for i, v := range x {
		y[i] = !v
	}
	return y
}
func reverse(x []bool) []bool {
	y := make([]bool, len(x))
	for i, v := range x {
		y[len(x)-1-i] = v
	}
	return y
}
func rotate(x []bool, r int) []bool {
	n := len(x)
	y := make([]bool, n)
	for i := range y {
		y[i] = x[(i+r)%n]
	}
	return y
}
func permBlocks(x []bool, m int, rng *rand.Rand) []bool {
	N := len(x) / m
	y := append([]bool(nil), x...)
	p := rng.Perm(N)
	for i := 0; i < N; i++ {
		copy(y[i*m:(i+1)*m], x[p[i]*m:(p[i]+1)*m])
	}
	return y
}
func replaceTail(x []bool, m int, rng *rand.Rand) []bool {
	N := len(x) / m
	y := append([]bool(nil), x...)
	for i := N * m; i < len(y); i++ {
		y[i] = rng.Intn(2) == 1
	}
	return y
}

// block length that tau must respect for test i with parameter param at length n
func blockLen(i, param, n int) int {
	switch i {
	case 2:
		if param == 0 {
			switch {
			case n >= 100000000:
				return 1000000
			case n >= 1000000:
				return 10000
			case n >= 10000:
				return 1000
			case n >= 1000:
				return 100
			}
			return 10
		}
		return param
	case 3:
		return param
	case 7:
		if n >= 750000 {
			return 10000
		} else if n >= 6272 {
			return 128
		}
		return 8
	case 10:
		return param * param
	case 13:
		return param
	}
	return 0
}

func symmetryCmd(job []byte, out *Out) error {
	var j struct {
		Rows []struct {
			T   string `json:"t"`
			Tau string `json:"tau"`
			Rel string `json:"rel"`
		} `json:"rows"`
		Inputs []struct {
			ID   int    `json:"id"`
			Mode string `json:"mode"`
			N    int    `json:"n"`
			Seed int64  `json:"seed"`
			AllR bool   `json:"allrot"`
		} `json:"inputs"`
	}
	if err := json.Unmarshal(job, &j); err != nil {
		return err
	}
	for _, in := range j.Inputs {
		x := genBits(in.Mode, in.N, in.Seed)
		rng := rand.New(rand.NewSource(in.Seed + 99))
		n := in.N
		for _, row := range j.Rows {
			if row.Rel == "none" {
				continue
			}
			i := idxOf(row.T)
			for _, pr := range documented[i] {
				if n < minLen(i, pr) {
					continue
				}
				if i == 13 && pr > 500 && n > 200000 {
					continue
				}
				type variant struct {
					y    []bool
					taup int
					aprm int
					bprm int
				}
				var vs []variant
				switch row.Tau {
				case "complement":
					if row.Rel == "swap" {
						vs = append(vs, variant{complement(x), 0, 1 - pr, pr})
					} else {
						vs = append(vs, variant{complement(x), 0, pr, pr})
					}
				case "reverse":
					if row.Rel == "swap" {
						vs = append(vs, variant{reverse(x), 0, 1 - pr, pr})
					} else {
						vs = append(vs, variant{reverse(x), 0, pr, pr})
					}
				case "rotate":
					rs := []int{1, 7, n / 2, n - 1, 1 + rng.Intn(n-1)}
					if pr > 1 {
						rs = append(rs, pr-1)
					}
					if in.AllR {
						rs = rs[:0]
						for r := 1; r < n; r++ {
							rs = append(rs, r)
						}
					}
					for _, r := range rs {
						vs = append(vs, variant{rotate(x, r%n), r, pr, pr})
					}
				case "permblocks":
					m := blockLen(i, pr, n)
					if m > 0 && n/m >= 2 {
						for rep := 0; rep < 2; rep++ {
							vs = append(vs, variant{permBlocks(x, m, rng), m, pr, pr})
						}
					}
				case "tail":
					m := blockLen(i, pr, n)
					if m > 0 && n%m != 0 {
						for rep := 0; rep < 2; rep++ {
							vs = append(vs, variant{replaceTail(x, m, rng), n % m, pr, pr})
						}
					}
				}
				for _, v := range vs {
					ev := R{"ev": "sym", "id": in.ID, "t": row.T, "tau": row.Tau, "rel": row.Rel, "param": pr, "taup": v.taup, "n": n, "mode": in.Mode, "seed": in.Seed, "panic": ""}
					func() {
						defer func() {
							if p := recover(); p != nil {
								ev["panic"] = fmt.Sprint(p)
							}
						}()
						ev["a"] = protoAt(i, v.aprm, x)
						ev["b"] = protoAt(i, v.bprm, v.y)
					}()
					for _, k := range []string{"a", "b"} {
						if _, ok := ev[k]; !ok {
							ev[k] = rr(0, 0, 0, 0)
						}
					}
					out.Emit(ev)
					// the same relation through the byte-oriented entry points when the length allows it
					if n%8 == 0 && !(in.AllR && row.Tau == "rotate" && v.taup%16 != 1) {
						evb := R{"ev": "sym", "id": in.ID, "t": row.T, "tau": row.Tau, "rel": row.Rel, "param": pr, "taup": v.taup, "n": n, "mode": in.Mode, "seed": in.Seed, "panic": "", "bytes": true}
						func() {
							defer func() {
								if p := recover(); p != nil {
									evb["panic"] = fmt.Sprint(p)
								}
							}()
							evb["a"] = bytesAt(i, v.aprm, bitsToBytes(x))
							evb["b"] = bytesAt(i, v.bprm, bitsToBytes(v.y))
						}()
						for _, k := range []string{"a", "b"} {
							if _, ok := evb[k]; !ok {
								evb[k] = rr(0, 0, 0, 0)
							}
						}
						out.Emit(evb)
					}
				}
			}
		}
	}
	return nil
}
