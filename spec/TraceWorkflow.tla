--------------------------- MODULE TraceWorkflow ---------------------------
(***************************************************************************)
(* Channel T for C07-C10: validates executions of the real detection       *)
(* workflows (stub runners installed through the exported registry, the    *)
(* source observed through the caller-supplied io.Reader) against          *)
(* Decision.tla and the workflow models.  One job = one call:              *)
(*   begin  fn s sb items fast cnt hist fault(bool) total                  *)
(*   round  sample items          one per buffer handed to the round fn    *)
(*   ret    hang verdict haserr named consumed maxreq leak late panic      *)
(*   begin (real mode) additionally: real = TRUE, qs = items x s decimal   *)
(*          strings (the Q-values the registry runners return on each      *)
(*          sample); the histogram is then computed here by Decision!Hist. *)
(*   single numByte fault hang panic verdict haserr consumed maxreq ref    *)
(*          one SingleDetect call; ref = verdict of the same bytes under   *)
(*          full-buffer reads without faults (C09/C10 only; C11 judges the *)
(*          verdict itself against the poker definition).                  *)
(*   begin.mustreject: the stream is stuck-at / short-cycle (C14);          *)
(*   begin.decide = FALSE: no result matrix was recorded (10^6-bit real     *)
(*   runs), only termination, error/verdict consistency and rejection.      *)
(* `cnt`/`hist` are the planned per-item pass counts and Q histograms over *)
(* the s samples of the stream; the stubs return the planned result of the *)
(* sample they recognise in the buffer (sample = -1: stale / zero /        *)
(* misaligned / partly overwritten buffer).                                *)
(***************************************************************************)
EXTENDS Integers, Sequences, FiniteSets, TLC, Json, Decision

Trace == ndJsonDeserialize("trace.ndjson")
VARIABLES l, st
vars == <<l, st>>

Idle == [phase |-> "idle"]
Init == l = 1 /\ st = Idle

Expected(n) == [j \in 1..n |-> j]

HistSeq(qs) == LET h == Hist(qs) IN [b \in 1..10 |-> h[b - 1]]
Begin(e) ==
  /\ e.s \in 1..1000 /\ e.items \in 1..15 /\ e.sb \in 1..10000000
  /\ Len(e.cnt) = e.items
  /\ IF ~e.decide THEN TRUE
     ELSE IF e.real
       THEN /\ Len(e.qs) = e.items
            /\ \A i \in 1..e.items : Len(e.qs[i]) = e.s /\ \A k \in 1..e.s : RIsNum(e.qs[i][k])
       ELSE Len(e.hist) = e.items
  /\ st' = [phase |-> "run", fn |-> e.fn, s |-> e.s, sb |-> e.sb, items |-> e.items, fast |-> e.fast,
            cnt |-> e.cnt, hist |-> IF ~e.decide THEN <<>> ELSE IF e.real THEN [i \in 1..e.items |-> HistSeq(e.qs[i])] ELSE e.hist,
            fault |-> e.fault, real |-> e.real, mustreject |-> e.mustreject, decide |-> e.decide, seen |-> {}, nxt |-> 0]

\* a buffer handed to the round function: a fresh, complete, consecutive sample, judged once,
\* by exactly the first `items` registry runners in order; in stream order for sequential workflows
Round(e) ==
  /\ st.phase = "run"
  /\ e.sample \in 0..(st.s - 1)
  /\ e.sample \notin st.seen
  /\ e.items = Expected(st.items)
  /\ (~st.fast => e.sample = st.nxt)
  /\ st' = [st EXCEPT !.seen = @ \cup {e.sample}, !.nxt = @ + 1]

HistFn(h) == [b \in 0..9 |-> h[b + 1]]
Ret(e) ==
  /\ st.phase = "run"
  /\ e.hang = FALSE /\ e.panic = FALSE          \* returns within bounded time, never crashes
  /\ e.leak <= 0                                \* no goroutine left behind
  /\ e.late = 0                                 \* nothing is read or judged after the verdict (decision after the barrier)
  /\ e.maxreq <= st.s * st.sb                   \* bytes beyond the s samples are never requested
  /\ (st.mustreject => e.verdict = FALSE /\ e.haserr = TRUE)   \* C14: degenerate sources are always rejected
  /\ IF ~st.decide THEN e.haserr = ~e.verdict
     ELSE IF st.fault
       THEN /\ e.verdict = FALSE /\ e.haserr = TRUE
            /\ st.seen \subseteq 0..(st.s - 1)
       ELSE LET cnt == [i \in 1..st.items |-> st.cnt[i]]
                hist == [i \in 1..st.items |-> HistFn(st.hist[i])]
                ok == VerdictTrue(cnt, hist, st.s, st.items)
            IN /\ (~st.real => st.seen = 0..(st.s - 1)) \* every sample judged (exactly once, by Round)
               /\ e.consumed = st.s * st.sb
               /\ e.verdict = ok
               /\ e.haserr = ~ok
               /\ (~ok => e.named \in 1..st.items /\ Fails(cnt, hist, st.s, e.named))
               /\ (ok => e.named = 0)
  /\ st' = Idle

Single(e) ==
  /\ st.phase = "idle"
  /\ e.hang = FALSE /\ e.panic = FALSE /\ e.leak <= 0
  /\ e.maxreq <= (IF e.numByte > 0 THEN e.numByte ELSE 0)
  /\ IF e.fault THEN e.verdict = FALSE /\ e.haserr = TRUE
     ELSE IF e.numByte < 16 THEN e.verdict = FALSE /\ e.haserr = TRUE
     ELSE /\ e.haserr = FALSE /\ e.consumed = e.numByte /\ e.verdict = e.ref
  /\ UNCHANGED st

Step == /\ l <= Len(Trace)
        /\ LET e == Trace[l] IN
             CASE e.ev = "begin" -> st.phase = "idle" /\ Begin(e)
               [] e.ev = "round" -> Round(e)
               [] e.ev = "ret"   -> Ret(e)
               [] e.ev = "single" -> Single(e)
               [] OTHER -> FALSE
        /\ l' = l + 1
Spec == Init /\ [][Step]_vars
Accepted == TLCGet("stats").diameter - 1 = Len(Trace)
=============================================================================
