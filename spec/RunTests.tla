------------------------------ MODULE RunTests ------------------------------
(***************************************************************************)
(* GM/T 0005-2021 run-based tests: runs total (5.5), runs distribution     *)
(* (5.6), longest run in a block (5.7).  The run-length view RLE(x) is the *)
(* primitive of the definitions; the Alg versions are the scanning loops   *)
(* of runs.go, runs_distribution.go, longest_run_of_ones_In_block.go.      *)
(***************************************************************************)
EXTENDS Integers, Sequences, FiniteSets, SequencesExt, BitSeq, RealFn

Max2(a, b) == IF a > b THEN a ELSE b
Min2(a, b) == IF a < b THEN a ELSE b

(* ---------------- runs total ---------------- *)
DefRuns(x) == [vobs |-> Len(RLE(x)), ones |-> Ones(x)]
\* the Go loop: V_obs = 1; for i < n-1: if bits[i] != bits[i+1] V_obs++; ones counted with the last bit separately
AlgRuns(x) == LET n == Len(x)
                  st == FoldLeft(LAMBDA s, i : [v |-> IF x[i] # x[i + 1] THEN s.v + 1 ELSE s.v, o |-> s.o + x[i]],
                                 [v |-> 1, o |-> 0], [j \in 1..(n - 1) |-> j])
              IN [vobs |-> st.v, ones |-> st.o + x[n]]
\* V = (Vobs - 2 n pi (1-pi)) / (2 sqrt(2n) pi (1-pi)),  pi = ones/n.   pi(1-pi) = 0: the limit, P = Q = 0.
RunsPQ(n, vobs, ones) ==
   IF ones = 0 \/ ones = n THEN [P |-> "0", Q |-> "0"]
   ELSE LET pq == RDiv(RMul(ones, RSub(n, ones)), RMul(n, n))       \* pi (1 - pi)
            v == RDiv(RSub(vobs, RMul(RMul(2, n), pq)), RMul(RMul(2, RSqrt(RMul(2, n))), pq))
        IN [P |-> RErfc(RAbs(v)), Q |-> RDiv(RErfc(v), 2)]

(* ---------------- runs distribution ---------------- *)
\* k = max { i >= 1 : (n - i + 3) / 2^(i+2) >= 5 }     (integer form)
KOk(n, i) == n - i + 3 >= 5 * Pow2(i + 2)
DefK(n) == CHOOSE i \in 0..24 : (i = 0 \/ KOk(n, i)) /\ ~KOk(n, i + 1) /\ \A j \in 1..i : KOk(n, j)
\* the Go loop: k = 0; repeat k++ until (n-k+3)/2^(k+2) < 5; k--
RECURSIVE AlgKFrom(_, _)
AlgKFrom(n, k) == IF ~KOk(n, k + 1) THEN k ELSE AlgKFrom(n, k + 1)
AlgK(n) == AlgKFrom(n, 0)
\* b[i], g[i], i in 1..k : number of 1-runs / 0-runs of length i, lengths >= k pooled into k
DefRunDist(x) ==
   LET k == DefK(Len(x))  r == RLE(x) IN
   [k |-> k,
    b |-> [i \in 1..k |-> Cardinality({j \in 1..Len(r) : r[j][1] = 1 /\ Min2(r[j][2], k) = i})],
    g |-> [i \in 1..k |-> Cardinality({j \in 1..Len(r) : r[j][1] = 0 /\ Min2(r[j][2], k) = i})]]
\* the Go scan: cur, cnt; on a change clamp cnt to k and count; explicit final-run step
AlgRunDist(x) ==
   LET n == Len(x)  k == AlgK(n)
       bump(st, cur, cnt) == LET c == IF cnt > k THEN k ELSE cnt IN
                             IF cur = 1 THEN [st EXCEPT !.b[c] = @ + 1] ELSE [st EXCEPT !.g[c] = @ + 1]
       step(st, i) == IF x[i] = st.cur THEN [st EXCEPT !.cnt = @ + 1]
                      ELSE [bump(st, st.cur, st.cnt) EXCEPT !.cur = x[i], !.cnt = 1]
       z == [i \in 1..k |-> 0]
       fin == FoldLeft(step, [cur |-> x[1], cnt |-> 0, b |-> z, g |-> z], [j \in 1..n |-> j])
       last == bump(fin, fin.cur, fin.cnt)
   IN [k |-> k, b |-> last.b, g |-> last.g]
\* T = number of runs; e_i = T / 2^(i+1) (i < k), e_k = T / 2^k ; V = sum (b_i-e_i)^2/e_i + (g_i-e_i)^2/e_i ; P = Q(k-1, V/2)
RunDistPQ(k, b, g) ==
   LET T == FoldLeft(LAMBDA a, i : a + b[i] + g[i], 0, [j \in 1..k |-> j])
       e(i) == IF i < k THEN RDiv(T, Pow2(i + 1)) ELSE RDiv(T, Pow2(k))
       term(c, i) == RDiv(RSq(RSub(c, e(i))), e(i))
       v == FoldLeft(LAMBDA a, i : RAdd(a, RAdd(term(b[i], i), term(g[i], i))), "0", [j \in 1..k |-> j])
       p == RIgamcHalf(2 * (k - 1), RDiv(v, 2))
   IN [P |-> p, Q |-> p]

(* ---------------- longest run in a block ---------------- *)
\* regime: block length m, K (classes - 1), first class bound startV, class probabilities as printed in the standard
Regime(n) == IF n >= 750000 THEN 3 ELSE IF n >= 6272 THEN 2 ELSE 1
LRm(r) == <<8, 128, 10000>>[r]
LRK(r) == <<3, 5, 6>>[r]
LRStart(r) == <<1, 4, 10>>[r]
LRPi(r) == << <<"0.2148", "0.3672", "0.2305", "0.1875">>,
              <<"0.1174", "0.2430", "0.2494", "0.1752", "0.1027", "0.1124">>,
              <<"0.086632", "0.208201", "0.248419", "0.193913", "0.121458", "0.068011", "0.073366">> >>[r]
LRDigits(r) == <<4, 4, 6>>[r]
\* exact class probabilities: P(longest <= startV), P(= startV+1), ..., P(>= startV+K)
LRExact(r, c) == LET m == LRm(r)  s == LRStart(r)  K == LRK(r) IN
                 IF c = 1 THEN RLongestRunLeq(m, s)
                 ELSE IF c = K + 1 THEN RSub(1, RLongestRunLeq(m, s + K - 1))
                 ELSE RSub(RLongestRunLeq(m, s + c - 1), RLongestRunLeq(m, s + c - 2))
\* the printed table equals the exact probability to its printed precision (half a unit in the last digit)
TableMatchesExact == \A r \in 1..3 : \A c \in 1..(LRK(r) + 1) :
      RClose(LRPi(r)[c], LRExact(r, c), RMul("0.5000001", RPowInt(10, -LRDigits(r))))
TableSumsToOne == \A r \in 1..3 : RClose(FoldLeft(LAMBDA a, c : RAdd(a, LRPi(r)[c]), "0", [j \in 1..(LRK(r) + 1) |-> j]), 1, "0.00011")

\* longest run of symbol sym in a block, from the run-length view
LongestOf(blk, sym) == LET r == RLE(blk)
                           ls == {r[j][2] : j \in {j \in 1..Len(r) : r[j][1] = sym}}
                       IN IF ls = {} THEN 0 ELSE CHOOSE l \in ls : \A l2 \in ls : l2 <= l
ClassOf(len, r) == Max2(LRStart(r), Min2(len, LRStart(r) + LRK(r))) - LRStart(r) + 1      \* 1..K+1
DefLongest(x, sym) ==
   LET r == Regime(Len(x))  m == LRm(r)  N == Len(x) \div m
       cls == [i \in 1..N |-> ClassOf(LongestOf(Block(x, m, i), sym), r)]
   IN [regime |-> r, N |-> N, nu |-> [c \in 1..(LRK(r) + 1) |-> Cardinality({i \in 1..N : cls[i] = c})]]
\* the Go loop: consume m bits per block, lr1/mlr1 counters, clamp, v[mlr1 - startV]++
AlgLongest(x, sym) ==
   LET r == Regime(Len(x))  m == LRm(r)  N == Len(x) \div m
       scan(blk) == FoldLeft(LAMBDA s, b : IF b = sym THEN [lr |-> s.lr + 1, mx |-> Max2(s.mx, s.lr + 1)] ELSE [lr |-> 0, mx |-> s.mx],
                             [lr |-> 0, mx |-> 0], blk).mx
       clamp(v) == IF v < LRStart(r) THEN LRStart(r) ELSE IF v > LRStart(r) + LRK(r) THEN LRStart(r) + LRK(r) ELSE v
       step(st, i) == LET c == clamp(scan(SubSeq(st.rest, 1, m))) - LRStart(r) + 1
                      IN [rest |-> SubSeq(st.rest, m + 1, Len(st.rest)), nu |-> [st.nu EXCEPT ![c] = @ + 1]]
   IN [regime |-> r, N |-> N,
       nu |-> FoldLeft(step, [rest |-> x, nu |-> [c \in 1..(LRK(r) + 1) |-> 0]], [j \in 1..N |-> j]).nu]
LongestPQ(r, N, nu) ==
   LET v == FoldLeft(LAMBDA a, c : LET e == RMul(N, LRPi(r)[c]) IN RAdd(a, RDiv(RSq(RSub(nu[c], e)), e)),
                     "0", [j \in 1..(LRK(r) + 1) |-> j])
       p == RIgamcHalf(LRK(r), RDiv(v, 2))
   IN [P |-> p, Q |-> p]

RunsResult(x) == LET d == DefRuns(x) IN RunsPQ(Len(x), d.vobs, d.ones)
RunDistResult(x) == LET d == DefRunDist(x) IN RunDistPQ(d.k, d.b, d.g)
LongestResult(x, sym) == LET d == DefLongest(x, sym) IN LongestPQ(d.regime, d.N, d.nu)

RunsAgrees(x) == AlgRuns(x) = DefRuns(x)
RunDistAgrees(x) == AlgRunDist(x) = DefRunDist(x)
LongestAgrees(x, sym) == AlgLongest(x, sym) = DefLongest(x, sym)
=============================================================================
