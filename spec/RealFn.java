import java.math.BigDecimal;
import java.math.BigInteger;
import java.math.MathContext;
import java.math.RoundingMode;
import tlc2.value.impl.*;

/**
 * Real-number layer for TLC: module override of RealFn.tla.
 * Reals are decimal strings ("0.25", "-3.1e-7"); TLC integers are accepted wherever a real is.
 * Working precision 60 significant digits, results rounded to 45.
 * Q(a,x) is evaluated by its closed finite form for integer / half-integer a (positive terms only);
 * it is NOT a port of the Cephes algorithm under test.
 */
public class RealFn {
    static final MathContext MC = new MathContext(60, RoundingMode.HALF_EVEN);
    static final MathContext OUT = new MathContext(45, RoundingMode.HALF_EVEN);
    static final BigDecimal ZERO = BigDecimal.ZERO, ONE = BigDecimal.ONE, TWO = BigDecimal.valueOf(2), HALF = new BigDecimal("0.5");
    static final BigDecimal PI = new BigDecimal("3.14159265358979323846264338327950288419716939937510582097494459230781640628620899");
    static final BigDecimal SQRTPI = PI.sqrt(MC);
    static final BigDecimal SQRT2 = TWO.sqrt(MC);
    static final BigDecimal LN2 = atanh2(ONE.divide(BigDecimal.valueOf(3), MC));

    static BigDecimal d(Value v) {
        if (v instanceof IntValue) return BigDecimal.valueOf(((IntValue) v).val);
        return new BigDecimal(((StringValue) v).getVal().toString().trim());
    }
    static int iv(Value v) { return ((IntValue) v).val; }
    static Value s(BigDecimal x) {
        BigDecimal r = x.round(OUT);
        if (r.signum() == 0) return new StringValue("0");
        return new StringValue(r.stripTrailingZeros().toString());
    }
    static Value b(boolean x) { return x ? BoolValue.ValTrue : BoolValue.ValFalse; }

    // ---------------- elementary functions ----------------
    static BigDecimal exp(BigDecimal x) {
        if (x.signum() == 0) return ONE;
        if (x.signum() < 0) return ONE.divide(exp(x.negate()), MC);
        if (x.compareTo(BigDecimal.valueOf(2000000)) > 0) throw new ArithmeticException("exp overflow");
        BigInteger k = x.divide(LN2, MC).setScale(0, RoundingMode.FLOOR).toBigInteger();
        BigDecimal r = x.subtract(LN2.multiply(new BigDecimal(k), MC), MC);
        int J = 8;
        BigDecimal y = r.divide(BigDecimal.valueOf(1L << J), MC);
        BigDecimal term = ONE, sum = ONE;
        for (int n = 1; n < 300; n++) {
            term = term.multiply(y, MC).divide(BigDecimal.valueOf(n), MC);
            sum = sum.add(term, MC);
            if (term.abs().compareTo(sum.abs().movePointLeft(65)) < 0) break;
        }
        for (int j = 0; j < J; j++) sum = sum.multiply(sum, MC);
        return sum.multiply(TWO.pow(k.intValueExact(), MC), MC);
    }
    static BigDecimal atanh2(BigDecimal z) { // 2*atanh(z)
        BigDecimal z2 = z.multiply(z, MC), term = z, sum = z;
        for (int n = 3; n < 4000; n += 2) {
            term = term.multiply(z2, MC);
            BigDecimal t = term.divide(BigDecimal.valueOf(n), MC);
            sum = sum.add(t, MC);
            if (t.abs().compareTo(sum.abs().movePointLeft(65)) < 0) break;
        }
        return sum.multiply(TWO, MC);
    }
    static BigDecimal ln(BigDecimal x) {
        if (x.signum() <= 0) throw new ArithmeticException("ln of non-positive");
        int k = 0;
        BigDecimal lo = new BigDecimal("0.75"), hi = new BigDecimal("1.5");
        BigDecimal y = x;
        // bring into range with big steps first
        int e10 = y.precision() - y.scale() - 1;
        if (Math.abs(e10) > 3) {
            // ln(x) = ln(x / 10^e10) + e10 ln 10
            BigDecimal m = y.movePointLeft(e10);
            return ln(m).add(ln(BigDecimal.TEN).multiply(BigDecimal.valueOf(e10), MC), MC);
        }
        while (y.compareTo(hi) >= 0) { y = y.divide(TWO, MC); k++; }
        while (y.compareTo(lo) < 0) { y = y.multiply(TWO, MC); k--; }
        BigDecimal z = y.subtract(ONE, MC).divide(y.add(ONE, MC), MC);
        BigDecimal r = atanh2(z);
        if (k != 0) r = r.add(LN2.multiply(BigDecimal.valueOf(k), MC), MC);
        return r;
    }
    static BigDecimal erfc(BigDecimal x) {
        if (x.signum() < 0) return TWO.subtract(erfc(x.negate()), MC);
        if (x.compareTo(BigDecimal.valueOf(3)) < 0) {
            MathContext W = new MathContext(80);
            BigDecimal x2 = x.multiply(x, W), term = x, sum = x;
            for (int n = 1; n < 1000; n++) {
                term = term.multiply(x2, W).divide(BigDecimal.valueOf(n), W).negate();
                BigDecimal t = term.divide(BigDecimal.valueOf(2L * n + 1), W);
                sum = sum.add(t, W);
                if (t.abs().compareTo(new BigDecimal("1e-75")) < 0) break;
            }
            BigDecimal erf = sum.multiply(TWO, W).divide(SQRTPI, W);
            return ONE.subtract(erf, MC);
        }
        if (x.compareTo(BigDecimal.valueOf(1400)) > 0) return ZERO; // < 1e-850000
        BigDecimal tiny = new BigDecimal("1e-200");
        BigDecimal f = x, C = x, D = ZERO;
        for (int n = 1; n < 5000; n++) {
            BigDecimal an = BigDecimal.valueOf(n).divide(TWO, MC);
            D = x.add(an.multiply(D, MC), MC); if (D.signum() == 0) D = tiny;
            C = x.add(an.divide(C, MC), MC); if (C.signum() == 0) C = tiny;
            D = ONE.divide(D, MC);
            BigDecimal delta = C.multiply(D, MC);
            f = f.multiply(delta, MC);
            if (delta.subtract(ONE).abs().compareTo(new BigDecimal("1e-58")) < 0) break;
        }
        return exp(x.multiply(x, MC).negate()).divide(SQRTPI, MC).divide(f, MC);
    }
    /** Q(a,x) for a = twoA/2, closed finite form; x <= 0 gives 1. */
    static BigDecimal igamcHalf(int twoA, BigDecimal x) {
        if (twoA <= 0) throw new ArithmeticException("shape must be positive");
        if (x.signum() <= 0) return ONE;
        if (x.compareTo(BigDecimal.valueOf(1900000)) > 0) return ZERO;
        BigDecimal ex = exp(x.negate());
        if (twoA % 2 == 0) {
            int a = twoA / 2;
            BigDecimal term = ONE, sum = ONE;
            for (int k = 1; k < a; k++) { term = term.multiply(x, MC).divide(BigDecimal.valueOf(k), MC); sum = sum.add(term, MC); }
            return ex.multiply(sum, MC);
        } else {
            int kmax = (twoA - 1) / 2;
            BigDecimal sx = x.sqrt(MC);
            BigDecimal res = erfc(sx);
            if (kmax >= 1) {
                BigDecimal term = TWO.multiply(sx, MC).divide(SQRTPI, MC);
                BigDecimal sum = term;
                for (int k = 2; k <= kmax; k++) {
                    term = term.multiply(x, MC).divide(BigDecimal.valueOf(2L * k - 1).divide(TWO, MC), MC);
                    sum = sum.add(term, MC);
                }
                res = res.add(ex.multiply(sum, MC), MC);
            }
            return res;
        }
    }
    /** cos / sin of 2*pi*k/N by argument reduction to [0, pi/4] and Taylor series. */
    static BigDecimal[] cosSinTurn(long k, long N) {
        k = ((k % N) + N) % N;
        // angle = 2 pi k / N ; reduce by octants exactly on the rational k/N
        // t = 8k/N in [0,8)
        long num = 8 * k; long oct = num / N; long rem = num % N; // angle = (oct + rem/N) * pi/4
        BigDecimal frac = BigDecimal.valueOf(rem).divide(BigDecimal.valueOf(N), MC);
        BigDecimal th = frac.multiply(PI, MC).divide(BigDecimal.valueOf(4), MC); // in [0, pi/4)
        BigDecimal c = cosSmall(th), s = sinSmall(th);
        BigDecimal r = ONE.divide(SQRT2, MC);
        // rotate by oct * pi/4
        BigDecimal co, so;
        switch ((int) (oct % 8)) {
            case 0: co = ONE; so = ZERO; break;
            case 1: co = r; so = r; break;
            case 2: co = ZERO; so = ONE; break;
            case 3: co = r.negate(); so = r; break;
            case 4: co = ONE.negate(); so = ZERO; break;
            case 5: co = r.negate(); so = r.negate(); break;
            case 6: co = ZERO; so = ONE.negate(); break;
            default: co = r; so = r.negate(); break;
        }
        BigDecimal cc = co.multiply(c, MC).subtract(so.multiply(s, MC), MC);
        BigDecimal ss = so.multiply(c, MC).add(co.multiply(s, MC), MC);
        return new BigDecimal[]{cc, ss};
    }
    static BigDecimal cosSmall(BigDecimal t) {
        BigDecimal t2 = t.multiply(t, MC), term = ONE, sum = ONE;
        for (int n = 1; n < 200; n++) {
            term = term.multiply(t2, MC).divide(BigDecimal.valueOf((2L * n - 1) * (2L * n)), MC).negate();
            sum = sum.add(term, MC);
            if (term.abs().compareTo(new BigDecimal("1e-66")) < 0) break;
        }
        return sum;
    }
    static BigDecimal sinSmall(BigDecimal t) {
        BigDecimal t2 = t.multiply(t, MC), term = t, sum = t;
        for (int n = 1; n < 200; n++) {
            term = term.multiply(t2, MC).divide(BigDecimal.valueOf((2L * n) * (2L * n + 1)), MC).negate();
            sum = sum.add(term, MC);
            if (term.abs().compareTo(new BigDecimal("1e-66")) < 0) break;
        }
        return sum;
    }
    /** number of m-bit words whose longest run of ones is <= r  (recurrence A(i)=2^i, i<=r; A(i)=sum_{j=1..r+1} A(i-j)). */
    static BigInteger lrCount(int m, int r) {
        if (r < 0) return BigInteger.ZERO;
        if (r >= m) return BigInteger.ONE.shiftLeft(m);
        BigInteger[] A = new BigInteger[m + 1];
        for (int i = 0; i <= m; i++) {
            if (i <= r) A[i] = BigInteger.ONE.shiftLeft(i);
            else { BigInteger sacc = BigInteger.ZERO; for (int j = 1; j <= r + 1; j++) sacc = sacc.add(A[i - j]); A[i] = sacc; }
        }
        return A[m];
    }

    // ---------------- operator overrides ----------------
    public static Value RAdd(Value a, Value c) { return s(d(a).add(d(c), MC)); }
    public static Value RSub(Value a, Value c) { return s(d(a).subtract(d(c), MC)); }
    public static Value RMul(Value a, Value c) { return s(d(a).multiply(d(c), MC)); }
    public static Value RDiv(Value a, Value c) { return s(d(a).divide(d(c), MC)); }
    public static Value RNeg(Value a) { return s(d(a).negate()); }
    public static Value RAbs(Value a) { return s(d(a).abs()); }
    public static Value RSqrt(Value a) { return s(d(a).sqrt(MC)); }
    public static Value RExp(Value a) { return s(exp(d(a))); }
    public static Value RLn(Value a) { return s(ln(d(a))); }
    public static Value RLog2(Value a) { return s(ln(d(a)).divide(LN2, MC)); }
    public static Value RErfc(Value a) { return s(erfc(d(a))); }
    public static Value RPhi(Value a) { return s(erfc(d(a).negate().divide(SQRT2, MC)).divide(TWO, MC)); }
    public static Value RIgamcHalf(Value twoA, Value x) { return s(igamcHalf(iv(twoA), d(x))); }
    public static Value RPowInt(Value a, Value k) {
        int e = iv(k);
        BigDecimal base = d(a);
        if (e >= 0) return s(base.pow(e, MC));
        return s(ONE.divide(base.pow(-e, MC), MC));
    }
    public static Value RInt(Value a) { return s(d(a)); }
    public static Value RLeq(Value a, Value c) { return b(d(a).compareTo(d(c)) <= 0); }
    public static Value RLt(Value a, Value c) { return b(d(a).compareTo(d(c)) < 0); }
    public static Value REq(Value a, Value c) { return b(d(a).compareTo(d(c)) == 0); }
    public static Value RMin(Value a, Value c) { return d(a).compareTo(d(c)) <= 0 ? s(d(a)) : s(d(c)); }
    public static Value RMax(Value a, Value c) { return d(a).compareTo(d(c)) >= 0 ? s(d(a)) : s(d(c)); }
    public static Value RClose(Value a, Value c, Value tol) { return b(d(a).subtract(d(c)).abs().compareTo(d(tol)) <= 0); }
    /** TRUE iff the value is a TLC integer or a string that parses as a finite decimal. Total on any value. */
    public static Value RIsNum(Value a) {
        if (a instanceof IntValue) return BoolValue.ValTrue;
        if (!(a instanceof StringValue)) return BoolValue.ValFalse;
        try { new BigDecimal(((StringValue) a).getVal().toString().trim()); return BoolValue.ValTrue; }
        catch (NumberFormatException e) { return BoolValue.ValFalse; }
    }
    public static Value RFloor(Value a) { return IntValue.gen(d(a).setScale(0, RoundingMode.FLOOR).intValueExact()); }
    public static Value RCeil(Value a) { return IntValue.gen(d(a).setScale(0, RoundingMode.CEILING).intValueExact()); }
    /** (a * b) mod n for non-negative 32-bit a, b and positive n, computed in 64 bits (TLC integers are 32-bit). */
    public static Value RMulMod(Value a, Value c, Value n) { return IntValue.gen((int) (((long) iv(a) * (long) iv(c)) % (long) iv(n))); }
    public static Value RCosTurn(Value k, Value n) { return s(cosSinTurn(iv(k), iv(n))[0]); }
    public static Value RSinTurn(Value k, Value n) { return s(cosSinTurn(iv(k), iv(n))[1]); }
    /** P(longest run of ones in a uniformly random m-bit block <= r), exact rational rounded to 45 digits. */
    public static Value RLongestRunLeq(Value m, Value r) {
        int mm = iv(m);
        return s(new BigDecimal(lrCount(mm, iv(r))).divide(new BigDecimal(BigInteger.ONE.shiftLeft(mm)), MC));
    }
    /** exact count as decimal string (for the small-m cross-check against brute force inside TLC). */
    public static Value RLongestRunCount(Value m, Value r) { return new StringValue(lrCount(iv(m), iv(r)).toString()); }
    /** render with k decimals like Go's %0.kf (round half even on the decimal; inputs are shortest decimal of a float64). */
    public static Value RFixed(Value a, Value k) { return new StringValue(d(a).setScale(iv(k), RoundingMode.HALF_EVEN).toPlainString()); }

    public static void main(String[] args) throws Exception {
        java.io.BufferedReader r = new java.io.BufferedReader(new java.io.InputStreamReader(System.in));
        String line;
        while ((line = r.readLine()) != null) {
            String[] p = line.trim().split("\\s+");
            if (p.length == 0 || p[0].isEmpty()) continue;
            BigDecimal v;
            switch (p[0]) {
                case "igamc": v = igamcHalf(Integer.parseInt(p[1]), new BigDecimal(p[2])); break;
                case "erfc": v = erfc(new BigDecimal(p[1])); break;
                case "exp": v = exp(new BigDecimal(p[1])); break;
                case "ln": v = ln(new BigDecimal(p[1])); break;
                case "sqrt": v = new BigDecimal(p[1]).sqrt(MC); break;
                case "phi": v = erfc(new BigDecimal(p[1]).negate().divide(SQRT2, MC)).divide(TWO, MC); break;
                case "cos": v = cosSinTurn(Long.parseLong(p[1]), Long.parseLong(p[2]))[0]; break;
                case "sin": v = cosSinTurn(Long.parseLong(p[1]), Long.parseLong(p[2]))[1]; break;
                case "lrleq": v = new BigDecimal(lrCount(Integer.parseInt(p[1]), Integer.parseInt(p[2]))).divide(new BigDecimal(BigInteger.ONE.shiftLeft(Integer.parseInt(p[1]))), MC); break;
                default: throw new IllegalArgumentException(p[0]);
            }
            System.out.println(v.round(OUT).toString());
        }
    }
}
