------------------------------ MODULE AlgTests ------------------------------
(***************************************************************************)
(* GM/T 0005-2021 matrix rank (5.10), linear complexity (5.13) and         *)
(* Maurer's universal test (5.14).                                         *)
(*  DefRank : log2 of the size of the row space (brute-force span)         *)
(*  AlgRank : rowEchelon of utils.go verbatim + "count non-zero rows"      *)
(*  DefLC   : least L admitting a linear recurrence of order L             *)
(*  AlgLC   : Berlekamp-Massey of utils.go verbatim, scratch arrays of Go  *)
(*            length CAP, with the index expression j+N-m guarded by oob   *)
(*  Maurer  : definitional distances vs the table machine                  *)
(***************************************************************************)
EXTENDS Integers, Sequences, FiniteSets, SequencesExt, TLC, BitSeq, RealFn

(* ======================= rank over GF(2) ======================= *)
\* a matrix is a sequence of M rows, each a sequence of M bits
XorRows(a, b) == Force([j \in 1..Len(a) |-> (a[j] + b[j]) % 2])
ZeroRow(M) == Force([j \in 1..M |-> 0])
\* row space = all XOR combinations of subsets of the rows
RECURSIVE SpanOf(_, _)
SpanOf(rows, M) == IF rows = <<>> THEN {ZeroRow(M)}
                   ELSE LET s == SpanOf(Tail(rows), M) IN s \cup {XorRows(Head(rows), v) : v \in s}
RECURSIVE Log2Exact(_)
Log2Exact(c) == IF c = 1 THEN 0 ELSE 1 + Log2Exact(c \div 2)
DefRank(A) == Log2Exact(Cardinality(SpanOf(A, Len(A))))

\* rowEchelon as written: i counts columns; pivot search from pivotstartrow; triple-XOR swap;
\* elimination of the rows below; the column always advances, the row only after a pivot
RECURSIVE Echelon(_, _, _, _, _)
Echelon(mat, m, i, prow, pcol) ==
   IF i = m THEN mat
   ELSE LET cand == {k \in prow..(m - 1) : mat[k + 1][pcol + 1] = 1}
        IN IF cand = {} THEN Echelon(mat, m, i + 1, prow, pcol + 1)
           ELSE LET pivot == CHOOSE k \in cand : \A k2 \in cand : k <= k2
                    \* triple XOR swap of rows pivot and prow (net effect: exchange)
                    sw == IF pivot # prow THEN [mat EXCEPT ![pivot + 1] = mat[prow + 1], ![prow + 1] = mat[pivot + 1]] ELSE mat
                    el == Force([r \in 1..m |-> IF r - 1 > prow /\ sw[r][pcol + 1] = 1 THEN XorRows(sw[prow + 1], sw[r]) ELSE sw[r]])
                IN Echelon(el, m, i + 1, prow + 1, pcol + 1)
AlgRank(A) == LET m == Len(A)  e == Echelon(A, m, 0, 0, 0) IN Cardinality({r \in 1..m : e[r] # ZeroRow(m)})

\* the test: consecutive row-major M x M matrices, classes {M, M-1, rest}
MatrixAt(x, M, t) == Force([r \in 1..M |-> Force([c \in 1..M |-> x[(t - 1) * M * M + (r - 1) * M + c]])])
DefRanks(x, M) == [t \in 1..(Len(x) \div (M * M)) |-> DefRank(MatrixAt(x, M, t))]
AlgRanks(x, M) == [t \in 1..(Len(x) \div (M * M)) |-> AlgRank(MatrixAt(x, M, t))]
RankPi == <<"0.2888", "0.5776", "0.1336">>
RankPQ(N, fm, fm1, fr) ==
   LET term(f, pi) == RDiv(RSq(RSub(f, RMul(pi, N))), RMul(pi, N))
       v == RAdd(RAdd(term(fm, RankPi[1]), term(fm1, RankPi[2])), term(fr, RankPi[3]))
       p == RIgamcHalf(2, RDiv(v, 2))
   IN [P |-> p, Q |-> p]
RankPQFromRanks(M, N, ranks) ==
   RankPQ(N, Cardinality({t \in 1..N : ranks[t] = M}), Cardinality({t \in 1..N : ranks[t] = M - 1}),
          Cardinality({t \in 1..N : ranks[t] < M - 1}))
RankResult(x, M) == RankPQFromRanks(M, Len(x) \div (M * M), DefRanks(x, M))

(* ======================= linear complexity ======================= *)
Dot(c, b, i, L) == FoldLeft(LAMBDA a, j : a + c[j] * b[i - j], 0, [t \in 1..L |-> t])
Holds(b, L, c) == \A i \in (L + 1)..Len(b) : b[i] = Dot(c, b, i, L) % 2
HasRec(b, L) == \E c \in [1..L -> {0, 1}] : Holds(b, L, c)
\* least L such that some recurrence of order L generates b (L = Len(b) always qualifies)
RECURSIVE LeastRec(_, _)
LeastRec(b, L) == IF L >= Len(b) \/ HasRec(b, L) THEN L ELSE LeastRec(b, L + 1)
DefLC(b) == LeastRec(b, 0)

\* Berlekamp-Massey as written in utils.go linearComplexity(a, M); arrays are functions 0..CAP-1
BMInit(CAP) == LET z == [i \in 0..(CAP - 1) |-> 0] @@ <<>> IN
               [N |-> 0, L |-> 0, m |-> -1, B |-> [z EXCEPT ![0] = 1], C |-> [z EXCEPT ![0] = 1], oob |-> FALSE]
BMDisc(st, b) == (b[st.N + 1] + FoldLeft(LAMBDA a, i : a + st.C[i] * b[st.N - i + 1], 0, [t \in 1..st.L |-> t])) % 2
BMStep(st, b, M, CAP) ==
   IF BMDisc(st, b) = 0 THEN [st EXCEPT !.N = @ + 1]
   ELSE LET shift == st.N - st.m
            idxs == {j + shift : j \in {j \in 0..(M - 1) : st.B[j] = 1}}       \* for j < M: if B_[j] == 1 { P[j+N_-m] = 1 }
            C2 == [i \in 0..(CAP - 1) |-> IF i < M THEN (st.C[i] + (IF i \in idxs THEN 1 ELSE 0)) % 2 ELSE st.C[i]] @@ <<>>   \* @@ materialises the array
        IN IF \E q \in idxs : q >= CAP THEN [st EXCEPT !.oob = TRUE]          \* Go: index out of range -> panic
           ELSE IF 2 * st.L <= st.N                                           \* L <= N/2 with integer division
                THEN [st EXCEPT !.L = st.N + 1 - st.L, !.m = st.N, !.B = st.C, !.C = C2, !.N = @ + 1]
                ELSE [st EXCEPT !.C = C2, !.N = @ + 1]
RECURSIVE BMRun(_, _, _, _)
BMRun(st, b, M, CAP) == IF st.N = M \/ st.oob THEN st ELSE BMRun(BMStep(st, b, M, CAP), b, M, CAP)
AlgLC(b, CAP) == BMRun(BMInit(CAP), b, Len(b), CAP)

\* mu = m/2 + (9 + (-1)^(m+1))/36 - (m/3 + 2/9)/2^m ;  T = (-1)^m (L - mu) + 2/9
LCMu(m) == RSub(RAdd(RDiv(m, 2), RDiv(IF m % 2 = 0 THEN 8 ELSE 10, 36)), RDiv(RAdd(RDiv(m, 3), RDiv(2, 9)), RPowInt(2, m)))
LCT(m, L) == RAdd(RMul(IF m % 2 = 0 THEN 1 ELSE -1, RSub(L, LCMu(m))), RDiv(2, 9))
LCClass(m, L) == LET t == LCT(m, L) IN
   IF RLeq(t, "-2.5") THEN 1 ELSE IF RLeq(t, "-1.5") THEN 2 ELSE IF RLeq(t, "-0.5") THEN 3 ELSE IF RLeq(t, "0.5") THEN 4
   ELSE IF RLeq(t, "1.5") THEN 5 ELSE IF RLeq(t, "2.5") THEN 6 ELSE 7
LCPi == <<"0.010417", "0.03125", "0.12500", "0.5000", "0.25000", "0.06250", "0.020833">>
LCPQFromLs(m, N, Ls) ==
   LET distinct == {Ls[t] : t \in 1..N}
       cls == [L \in distinct |-> LCClass(m, L)]
       nu == [c \in 1..7 |-> Cardinality({t \in 1..N : cls[Ls[t]] = c})]
       v == FoldLeft(LAMBDA a, c : LET e == RMul(N, LCPi[c]) IN RAdd(a, RDiv(RSq(RSub(nu[c], e)), e)), "0", [t \in 1..7 |-> t])
       p == RIgamcHalf(6, RDiv(v, 2))
   IN [P |-> p, Q |-> p]
DefLs(x, m) == [t \in 1..(Len(x) \div m) |-> DefLC(Block(x, m, t))]
LCResult(x, m) == LCPQFromLs(m, Len(x) \div m, DefLs(x, m))
\* closed forms used for descriptors at m in {500, 1000, 5000} (checked against DefLC for m <= 10 by TLC)
LoneOneBlock(m, k) == [i \in 1..m |-> IF i = k + 1 THEN 1 ELSE 0]       \* 0^k 1 0^(m-k-1)
ClosedFormsOK(m) == /\ DefLC(ZeroRow(m)) = 0
                    /\ \A k \in 0..(m - 1) : DefLC(LoneOneBlock(m, k)) = k + 1
                    /\ DefLC([i \in 1..m |-> 1]) = 1

(* ======================= Maurer universal ======================= *)
MaurerL == 7
MaurerQ == 1280
BlockVal(x, i) == Pat(x, (i - 1) * MaurerL + 1, MaurerL)
\* definitional distance of test block i: to the previous occurrence of the same 7-bit pattern, i itself if none
DefMaurerDists(x) ==
   LET K == Len(x) \div MaurerL - MaurerQ
       vals == [i \in 1..(MaurerQ + K) |-> BlockVal(x, i)]
       prev(i) == LET s == {j \in 1..(i - 1) : vals[j] = vals[i]} IN IF s = {} THEN 0 ELSE CHOOSE j \in s : \A j2 \in s : j2 <= j
   IN [t \in 1..K |-> (MaurerQ + t) - prev(MaurerQ + t)]
\* the table machine of maurers_universal.go
AlgMaurerDists(x) ==
   LET K == Len(x) \div MaurerL - MaurerQ
       init == FoldLeft(LAMBDA T, i : [T EXCEPT ![BlockVal(x, i)] = i], [p \in 0..127 |-> 0], [t \in 1..MaurerQ |-> t])
       fin == FoldLeft(LAMBDA st, i : LET v == BlockVal(x, i) IN [T |-> [st.T EXCEPT ![v] = i], d |-> Append(st.d, i - st.T[v])],
                       [T |-> init, d |-> <<>>], [t \in 1..K |-> MaurerQ + t])
   IN fin.d
\* histogram of distances as a sequence of <<d, count>> sorted by d
DistHist(ds) == LET vals == {ds[t] : t \in 1..Len(ds)} IN
                [i \in 1..Cardinality(vals) |-> LET d == SetToSortSeq(vals, <)[i] IN <<d, Cardinality({t \in 1..Len(ds) : ds[t] = d})>>]
\* fn = (1/K) sum log2 d ; c = 0.7 - 0.8/L + (4 + 32/L) K^(-3/L) / 15 ; sigma = c sqrt(var/K)
MaurerPQ(K, dist) ==
   LET sum == FoldLeft(LAMBDA a, dc : RAdd(a, RMul(dc[2], RLog2(dc[1]))), "0", dist)
       fn == RDiv(sum, K)
       c == RAdd(RSub("0.7", RDiv("0.8", MaurerL)),
                 RDiv(RMul(RAdd(4, RDiv(32, MaurerL)), RExp(RMul(RDiv(-3, MaurerL), RLn(K)))), 15))
       sigma == RMul(c, RSqrt(RDiv("3.125", K)))
       v == RDiv(RSub(fn, "6.1962507"), RMul(sigma, RSqrt(2)))
   IN [P |-> RErfc(RAbs(v)), Q |-> RDiv(RErfc(v), 2)]
MaurerResult(x) == MaurerPQ(Len(x) \div MaurerL - MaurerQ, DistHist(DefMaurerDists(x)))
=============================================================================
