--------------------------- MODULE TraceRegistry ---------------------------
(***************************************************************************)
(* Channel T for C15 / C16.                                                *)
(*  reg   : one byte string through the registry: runner i, Round15[i],    *)
(*          Round12[i] and the parameterised entry point of test i at its  *)
(*          default are bit-identical; a neighbouring documented parameter *)
(*          gives a different value whenever the driver observed that the  *)
(*          two parameters differ numerically on this input ("nb" list)    *)
(*  res   : one result of one test on an extreme / seeded input: ResultOK  *)
(***************************************************************************)
EXTENDS Integers, Sequences, TLC, Json, Registry, BitSeq
Trace == ndJsonDeserialize("trace.ndjson")
VARIABLE l
Same(a, b) == a.Pb = b.Pb /\ a.Qb = b.Qb /\ a.P2b = b.P2b /\ a.Q2b = b.Q2b
RegOK(e) ==
   /\ e.panic = ""
   /\ Len(e.runners) = 15 /\ e.len15 = 15 /\ e.len12 = 12 /\ Len(e.round15) = 15 /\ Len(e.round12) = 12
   /\ \A i \in 1..15 : Same(e.round15[i], e.runners[Round15[i]])                 \* full round = all fifteen, in order
   /\ \A i \in 1..12 : Same(e.round12[i], e.runners[Round12[i]])                 \* reduced round = exactly the first twelve
   /\ \A i \in 1..15 : e.runners[i].pass = e.round15[i].pass
   /\ Len(e.defaults) = 15
   /\ \A i \in 1..15 : e.defaults[i].t = Tests[i] /\ e.defaults[i].param = Default[i]
                       /\ Same(e.defaults[i], e.runners[i])                     \* registry position i runs test i at the standard's default
   /\ \A j \in 1..Len(e.nb) : e.nb[j].i \in 1..15 /\ e.nb[j].param # Default[e.nb[j].i] /\ ~Same(e.nb[j], e.runners[e.nb[j].i])
   /\ \A i \in 1..15 : ResultOK(Tests[i], e.runners[i], TRUE)
   /\ e.readgroup = TRUE /\ e.mutated = FALSE
   /\ e.stable = TRUE /\ e.reglen = 15                                          \* registry and full round unchanged after the reduced round ran
   /\ e.expand = -1                                                              \* B2bitArr(data) = BytesToBits(data) (first differing index, -1 = none)
\* light: a large byte string through the linear-time tests only: byte-oriented runner = bit-oriented entry point at the
\* default on BytesToBits(data); the library's expansion and file loader give exactly those bits
LightOK(e) ==
   /\ e.panic = "" /\ e.expand = -1 /\ e.readgroup = -1 /\ e.mutated = FALSE
   /\ Len(e.pairs) = 9
   /\ \A j \in 1..Len(e.pairs) : Same(e.pairs[j].runner, e.pairs[j].def) /\ ResultOK(Tests[e.pairs[j].i], e.pairs[j].runner, TRUE)
ResOK(e) == e.panic = "" /\ e.t \in {Tests[i] : i \in 1..15} /\ ResultOK(e.t, e.r, e.isrunner) /\ e.mutated = FALSE
\* probe: a test started on an input at the upper end of its admissible range must not refuse it (panic); if it finished
\* within the observation window its result is judged like any other
ProbeOK(e) == e.panic = "" /\ (e.finished => ResultOK(e.t, e.r, FALSE))
\* bytes: B2bit expands most-significant-bit first, B2Byte inverts it, B2bitArr concatenates (BitSeq!ByteBits / BytesToBits)
BytesOK(e) == /\ Len(e.rows) = 256 /\ Len(e.back) = 256
              /\ \A b \in 0..255 : e.rows[b + 1] = ByteBits(b) /\ e.back[b + 1] = b
              /\ e.arr = BytesToBits(e.arrbytes)
              /\ e.proxyarr = BytesToBits(e.arrbytes)      \* the driver's own expansion (used as the reference on large inputs)
              \* ... and still after a caller has appended to and overwritten the slices it was handed
              /\ Len(e.rows2) = 256 /\ \A b \in 0..255 : e.rows2[b + 1] = ByteBits(b)
              /\ e.arr2 = BytesToBits(e.arrbytes)
Init == l = 1
Step == /\ l <= Len(Trace)
        /\ LET e == Trace[l] IN CASE e.ev = "reg" -> RegOK(e) [] e.ev = "res" -> ResOK(e) [] e.ev = "bytes" -> BytesOK(e) [] e.ev = "light" -> LightOK(e) [] e.ev = "probe" -> ProbeOK(e) [] OTHER -> FALSE
        /\ l' = l + 1
Spec == Init /\ [][Step]_l
Accepted == TLCGet("stats").diameter - 1 = Len(Trace)
=============================================================================
