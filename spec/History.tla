------------------------------ MODULE History ------------------------------
(***************************************************************************)
(* C18, sequential side: "returns bit-identical results when called again  *)
(* on the same data ... exactly the results of calling it alone".          *)
(*                                                                         *)
(* Purity.tla covers overlapping invocations.  This module covers call     *)
(* HISTORIES: a process calls the library several times, with inputs of    *)
(* different lengths and contents, and every result must be the one the    *)
(* call would give as the first call of a fresh process.                   *)
(*                                                                         *)
(* The implementation is modelled with the three kinds of package-level    *)
(* state an optimised implementation tends to grow, each with a switch     *)
(* whose pure setting makes the state harmless:                            *)
(*   pool   a retained work buffer.  Reslice = TRUE: a recycled buffer is  *)
(*          cut to the requested length; FALSE: it keeps the length of the *)
(*          call that returned it (stale tail is processed)                *)
(*   memo   a result / parameter cache.  MemoKey = "full": keyed by        *)
(*          everything the value depends on; "len": keyed by the length    *)
(*          class only; "none": no cache                                   *)
(*   table  a lookup table built for the largest size seen.                *)
(*          DeriveCopy = TRUE: a smaller request derives its table into a  *)
(*          copy; FALSE: it rewrites the shared table in place             *)
(* With the pure settings HistoryIndependent holds for every history; each *)
(* impure setting violates it (negative controls, checked by the C18       *)
(* check), the third one only with THREE calls (long, short, anything) -   *)
(* which is why histories of length three are generated.                   *)
(*                                                                         *)
(* The same module emits every history of at most MaxCalls calls over the  *)
(* call classes (length class x data variant) as an execution plan; the Go *)
(* driver runs each plan in a fresh process against the real library (all  *)
(* fifteen tests, every documented parameter, bit- and byte-oriented entry *)
(* points) and TraceHistory.tla compares every result with the solitary    *)
(* one.                                                                    *)
(***************************************************************************)
EXTENDS Integers, Sequences, FiniteSets, TLC, Json

CONSTANTS NLen,          \* number of length classes, 1 = shortest
          NVar,          \* data variants per length class
          MaxCalls,      \* bound on the length of a history
          Reslice, MemoKey, DeriveCopy

Calls == (1..NLen) \X (1..NVar)
ClassId(c) == (c[1] - 1) * NVar + c[2]                  \* 1..NLen*NVar, the index the driver uses
Ideal(c) == c[1] * 100 + c[2]                            \* what the definition yields: a function of the call's own argument

VARIABLES hist,          \* calls made so far
          res,           \* their results
          pool,          \* [cap, len]: capacity and current length of the retained buffer (0 = none yet)
          memo,          \* key -> cached value
          table          \* [size, dirty]: lookup table for length class `size`; dirty = rewritten in place by a smaller request
vars == <<hist, res, pool, memo, table>>

Max(a, b) == IF a > b THEN a ELSE b

Init == /\ hist = <<>> /\ res = <<>>
        /\ pool = [cap |-> 0, len |-> 0]
        /\ memo = <<>>                                    \* sequence of <<key, value>> pairs
        /\ table = [size |-> 0, dirty |-> FALSE]

MemoGet(key) == LET hits == {i \in 1..Len(memo) : memo[i][1] = key} IN
                IF hits = {} THEN -1 ELSE memo[CHOOSE i \in hits : TRUE][2]

Call(c) ==
   LET L == c[1]
       \* --- buffer: recycled if large enough
       recycled == pool.cap >= L
       eff == IF recycled /\ ~Reslice THEN pool.len ELSE L          \* the length the call actually processes
       \* --- table: rebuilt when too small, used as is for its own size, derived for a smaller one
       usedDirty == IF L > table.size THEN FALSE ELSE table.dirty
       table2 == IF L > table.size THEN [size |-> L, dirty |-> FALSE]
                 ELSE IF L < table.size /\ ~DeriveCopy THEN [table EXCEPT !.dirty = TRUE]
                 ELSE table
       computed == eff * 100 + c[2] + (IF usedDirty THEN 50 ELSE 0)
       key == IF MemoKey = "full" THEN <<c[1], c[2]>> ELSE <<c[1], 0>>
       cached == IF MemoKey = "none" THEN -1 ELSE MemoGet(key)
       value == IF cached >= 0 THEN cached ELSE computed
   IN /\ Len(hist) < MaxCalls
      /\ hist' = Append(hist, c)
      /\ res' = Append(res, value)
      /\ pool' = [cap |-> Max(pool.cap, L), len |-> eff]
      /\ memo' = IF MemoKey = "none" \/ cached >= 0 THEN memo ELSE Append(memo, <<key, computed>>)
      /\ table' = table2
      /\ PrintT(ToJson([ev |-> "hplan", calls |-> [i \in 1..Len(hist') |-> ClassId(hist'[i])]]))

Next == \E c \in Calls : Call(c)
Spec == Init /\ [][Next]_vars

\* every result is the one the call gives alone, whatever was called before
HistoryIndependent == \A i \in 1..Len(hist) : res[i] = Ideal(hist[i])
\* (implied) calling again on the same data gives the same result
Repeatable == \A i, j \in 1..Len(hist) : hist[i] = hist[j] => res[i] = res[j]
TypeOK == /\ Len(hist) = Len(res) /\ Len(hist) <= MaxCalls
          /\ pool.cap \in 0..NLen /\ pool.len \in 0..NLen /\ table.size \in 0..NLen
=============================================================================
