----------------------------- MODULE GenAlgBig -----------------------------
(***************************************************************************)
(* C04 at the real parameters (32 x 32 matrices; m in {500, 1000, 5000})   *)
(* through descriptors whose true rank / linear complexity the             *)
(* specification derives by lemmas that TLC validates against the          *)
(* brute-force definitions at small sizes:                                 *)
(*  Rank lemma : rows = permutation of [U ; C.U], U unit upper triangular  *)
(*               r x M  ==> rank = r  (row/column permutations keep rank)  *)
(*  LC lemma   : if b satisfies a recurrence of order L everywhere and the *)
(*               brute-force complexity of its first 2L+2 bits is L, then  *)
(*               DefLC(b) = L ; 0^k 1 0^(m-k-1) has complexity k+1         *)
(* TLC additionally runs the implementation-shaped AlgRank / AlgLC (with   *)
(* Go array bounds) on every generated matrix / block.                     *)
(***************************************************************************)
EXTENDS Integers, Sequences, FiniteSets, TLC, Json, AlgTests

CONSTANTS Family,    \* "rank32" | "lcbig"
          Seeds,     \* sequence of seeds
          NMat,      \* matrices per rank sequence
          LcM, NBlk, \* block length and blocks per LC sequence
          CAP, Stride

VARIABLE k
M0 == 46337
Mix(a) == ((a % M0) * (a % M0) + 12345) % M0
H(seed, i) == Mix(Mix(Mix((i % M0) * 7919 + seed * 104 + 17) + (i \div M0)) + seed)
HBit(seed, i) == (H(seed, i) \div 8) % 2

(* ---------------- rank construction ---------------- *)
\* matrix of size M with rank exactly r, from seed s
RankedMatrix(M, r, s) ==
   LET basis == Force([i \in 1..r |-> Force([c \in 1..M |-> IF c = i THEN 1 ELSE IF c > i THEN HBit(s, 1000 + i * 64 + c) ELSE 0])])
       comb(q) == FoldLeft(LAMBDA acc, i : IF HBit(s, 5000 + q * 64 + i) = 1 THEN XorRows(acc, basis[i]) ELSE acc, ZeroRow(M), [t \in 1..r |-> t])
       rows == Force([q \in 1..M |-> IF q <= r THEN basis[q] ELSE comb(q)])
       a == 2 * (H(s, 1) % (M \div 2)) + 1                      \* odd multiplier: i -> (a i + b) mod M is a bijection when M is a power of two
       b == H(s, 2) % M
       rp(i) == IF M \in {2, 4, 8, 16, 32} THEN ((a * (i - 1) + b) % M) + 1 ELSE ((i - 1 + b) % M) + 1
       cp(j) == ((j - 1 + (H(s, 3) % M)) % M) + 1
   IN Force([i \in 1..M |-> Force([j \in 1..M |-> rows[rp(i)][cp(j)]])])
\* target rank of matrix t in the sequence with seed s: full, full-1, full-2 and a sweep over every rank
TargetRank(M, s, t) == LET u == H(s, 77 + t) % 10 IN
                       IF u < 3 THEN M ELSE IF u < 9 THEN M - 1 ELSE IF H(s, 88 + t) % 2 = 0 THEN M - 2 ELSE (H(s, 99 + t) % (M + 1))
FlattenMatrix(A) == FoldLeft(LAMBDA acc, r : acc \o r, <<>>, A)
RankSeqBits(M, s, N) ==
   LET body == FoldLeft(LAMBDA acc, t : acc \o FlattenMatrix(RankedMatrix(M, TargetRank(M, s, t), s * 31 + t)), <<>>, [t \in 1..N |-> t])
       tail == [i \in 1..(H(s, 4) % 9) |-> HBit(s, i)]
   IN body \o tail
RankLemmaSmall(Ms) == \A M \in Ms : \A r \in 0..M : \A s \in 1..6 : DefRank(RankedMatrix(M, r, s)) = r

(* ---------------- linear-complexity construction ---------------- *)
\* LFSR output of length m from taps c (sequence of L bits) and initial fill
LfsrBlock(m, c, fill) ==
   LET L == Len(c) IN
   FoldLeft(LAMBDA b, i : Append(b, Dot(c, b, i, L) % 2), fill, [t \in 1..(m - L) |-> L + t])
\* complexity by the lemma (L <= 5): brute force on the first 2L+2 bits, recurrence holds on the whole block
LCByLemma(b, c) == LET L == Len(c)  pre == SubSeq(b, 1, IF Len(b) >= 2 * L + 2 THEN 2 * L + 2 ELSE Len(b)) IN
                   IF Len(b) >= 2 * L + 2 /\ Holds(b, L, c) /\ DefLC(pre) = L THEN L ELSE -1
BlockKind(s, t) == H(s, 300 + t) % 40
Taps(s, t) == LET L == 1 + (H(s, 400 + t) % 5) IN [j \in 1..L |-> IF j = L THEN 1 ELSE HBit(s, 500 + 7 * t + j)]
Fill(s, t, L) == [j \in 1..L |-> IF j = 1 THEN 1 ELSE HBit(s, 600 + 7 * t + j)]
\* block t of the sequence and its true complexity (or -1 when the lemma does not apply: then the block is replaced by zeros)
BigBlock(m, s, t) ==
   LET kind == BlockKind(s, t) IN
   CASE kind = 0 -> [blk |-> ZeroRow(m), L |-> 0]
     [] kind = 1 -> [blk |-> [i \in 1..m |-> 1], L |-> 1]
     [] kind = 2 -> [blk |-> LoneOneBlock(m, m - 1), L |-> m]                         \* 0^(m-1) 1 : the out-of-bounds block of the pinned commit
     [] kind = 3 -> LET kk == H(s, 700 + t) % m IN [blk |-> LoneOneBlock(m, kk), L |-> kk + 1]
     [] kind \in {4, 5} -> LET c == Taps(s, t)  b == LfsrBlock(m, c, Fill(s, t, Len(c)))  L == LCByLemma(b, c) IN
                 IF L >= 0 THEN [blk |-> b, L |-> L] ELSE [blk |-> ZeroRow(m), L |-> 0]
     \* the bulk: lone-one blocks with complexity m/2 + off, off distributed roughly like the class probabilities
     [] OTHER -> LET u == kind - 6
                     off == IF u < 17 THEN 0 ELSE IF u < 25 THEN 1 ELSE IF u < 29 THEN -1 ELSE IF u < 31 THEN 2 ELSE IF u < 32 THEN -2 ELSE IF u < 33 THEN 3 ELSE -3
                     L == (m \div 2) + off
                 IN [blk |-> LoneOneBlock(m, L - 1), L |-> L]
LcSeq(m, s, N) == [t \in 1..N |-> BigBlock(m, s, t)]
LcSeqBits(m, s, N) ==
   LET body == FoldLeft(LAMBDA acc, t : acc \o BigBlock(m, s, t).blk, <<>>, [t \in 1..N |-> t])
       tail == [i \in 1..(H(s, 5) % 11) |-> HBit(s, i)]
   IN body \o tail
LCLemmaSmall(ms) == \A m \in ms : \A s \in 1..4 : \A t \in 1..6 : LET bb == BigBlock(m, s, t) IN DefLC(bb.blk) = bb.L

Total == Len(Seeds)
R5(pq) == [P |-> pq.P, Q |-> pq.Q]
Vector(j) ==
   LET s == Seeds[j + 1] IN
   IF Family = "rank32"
   THEN LET x == RankSeqBits(32, s, NMat)
            ranks == [t \in 1..NMat |-> TargetRank(32, s, t)]
        IN [ev |-> "vec", family |-> Family, label |-> [n |-> Len(x), mode |-> "ranked", seed |-> s], bits |-> x,
            calls |-> << [t |-> "rank", M |-> 32, N |-> NMat, ranks |-> ranks] @@ R5(RankPQFromRanks(32, NMat, ranks)) >>]
   ELSE LET x == LcSeqBits(LcM, s, NBlk)
            Ls == [t \in 1..NBlk |-> BigBlock(LcM, s, t).L]
        IN [ev |-> "vec", family |-> Family, label |-> [n |-> Len(x), mode |-> "lcdesc", seed |-> s], bits |-> x,
            calls |-> << [t |-> "lc", m |-> LcM, N |-> NBlk, Ls |-> Ls] @@ R5(LCPQFromLs(LcM, NBlk, Ls)) >>]

\* the implementation-shaped algorithms on the big instances: same value as the lemma, never out of bounds
AlgOnBig == k >= 0 /\ k < Total =>
   LET s == Seeds[k + 1] IN
   IF Family = "rank32"
   THEN \A t \in 1..NMat : AlgRank(RankedMatrix(32, TargetRank(32, s, t), s * 31 + t)) = TargetRank(32, s, t)
   ELSE \A t \in 1..NBlk : LET bb == BigBlock(LcM, s, t)  r == AlgLC(bb.blk, CAP) IN ~r.oob /\ r.L = bb.L

Init == k \in {-1 - s : s \in 0..(Stride - 1)}
Next == LET j == IF k < 0 THEN -1 - k ELSE k + Stride IN
        /\ j < Total
        /\ k' = j
        /\ PrintT(ToJson(Vector(j)))
Spec == Init /\ [][Next]_k

ASSUME RankLemmaSmall({2, 3, 4, 5})
ASSUME LCLemmaSmall({12})
=============================================================================
