------------------------------ MODULE FreqTests ------------------------------
(***************************************************************************)
(* GM/T 0005-2021 frequency / pattern-count tests: monobit (5.1), block    *)
(* frequency (5.2), poker (5.3), overlapping subsequence (5.4),            *)
(* approximate entropy (5.12).                                             *)
(*   Def*  : declarative integer summaries straight from the standard      *)
(*   Alg*  : the loops of the Go code (mono_bit_frequency.go,              *)
(*           frequency_within_block.go, poker.go, overlapping.go,          *)
(*           approximate_entropy.go) incl. byte fast paths                 *)
(*   *PQ   : statistic -> P/Q through the real layer                       *)
(* TLC checks Alg = Def on every enumerated sequence; PQ(Def) is the       *)
(* oracle for the real code.                                               *)
(***************************************************************************)
EXTENDS Integers, Sequences, FiniteSets, SequencesExt, BitSeq, RealFn

(* ---------------- monobit ---------------- *)
DefMonoS(x) == 2 * Ones(x) - Len(x)
\* bit path: S++ / S--
AlgMonoSBits(x) == FoldLeft(LAMBDA s, b : IF b = 1 THEN s + 1 ELSE s - 1, 0, x)
\* byte path: S += 2*popcount(b) - 8
PopCount(b) == Ones(ByteBits(b))
AlgMonoSBytes(bs) == FoldLeft(LAMBDA s, b : s + 2 * PopCount(b) - 8, 0, bs)
MonoPQ(S, n) == LET v == RDiv(S, RSqrt(RMul(2, n))) IN
                [P |-> RErfc(RAbs(v)), Q |-> RDiv(RErfc(v), 2)]

(* ---------------- block frequency ---------------- *)
SelectM(n) == IF n >= 100000000 THEN 1000000 ELSE IF n >= 1000000 THEN 10000
              ELSE IF n >= 10000 THEN 1000 ELSE IF n >= 1000 THEN 100 ELSE 10
\* ones per block, trailing partial block discarded
DefBlockOnes(x, m) == [i \in 1..NBlocks(x, m) |-> Ones(Block(x, m, i))]
\* sum over blocks of (2 o_i - m)^2   ( V = that / m ;  P = Q(N/2, V/2) )
DefBlockDev(x, m) == LET o == DefBlockOnes(x, m) IN
                     FoldLeft(LAMBDA a, i : a + (2 * o[i] - m) * (2 * o[i] - m), 0, [i \in 1..NBlocks(x, m) |-> i])
\* the Go loop: bits = bits[:N*m]; N times: consume m bits from the head
AlgBlockDev(x, m) ==
   LET N == Len(x) \div m
       cut == SubSeq(x, 1, N * m)
       step(st, dummy) == LET blk == SubSeq(st.rest, 1, m)
                              o == FoldLeft(LAMBDA a, b : IF b = 1 THEN a + 1 ELSE a, 0, blk)
                          IN [rest |-> SubSeq(st.rest, m + 1, Len(st.rest)), acc |-> st.acc + (2 * o - m) * (2 * o - m)]
   IN FoldLeft(step, [rest |-> cut, acc |-> 0], [i \in 1..N |-> i]).acc
BlockPQ(N, m, dev) == LET p == RIgamcHalf(N, RDiv(dev, RMul(2, m))) IN [P |-> p, Q |-> p]

(* ---------------- poker ---------------- *)
DefPokerHist(x, m) == HistOfSeq([i \in 1..NBlocks(x, m) |-> Pat(x, (i - 1) * m + 1, m)], Pow2(m))
\* bit path: patterns[subsequencepattern(bits[i*m:], m)]++
AlgPokerHistBits(x, m) == FoldLeft(LAMBDA h, i : LET p == Pat(x, i * m + 1, m) IN [h EXCEPT ![p] = @ + 1],
                                   [p \in 0..(Pow2(m) - 1) |-> 0], [j \in 1..(Len(x) \div m) |-> j - 1])
\* byte path m = 8: N = 8*len/8, patterns[data[i]]++ ; m = 4: both nibbles of every byte
AlgPokerHistBytes(bs, m) ==
   IF m = 8 THEN FoldLeft(LAMBDA h, b : [h EXCEPT ![b] = @ + 1], [p \in 0..255 |-> 0], bs)
   ELSE FoldLeft(LAMBDA h, b : LET h1 == [h EXCEPT ![b \div 16] = @ + 1] IN [h1 EXCEPT ![b % 16] = @ + 1],
                 [p \in 0..15 |-> 0], bs)
\* V = 2^m / N * sumsq - N ; P = Q((2^m - 1)/2, V/2)
PokerPQ(N, m, sumsq) == LET v == RSub(RDiv(RMul(Pow2(m), sumsq), N), N)
                            p == RIgamcHalf(Pow2(m) - 1, RDiv(v, 2))
                        IN [P |-> p, Q |-> p]

(* ---------------- overlapping subsequence (serial) ---------------- *)
\* histogram of the n cyclic windows of length m (m = 0: a single empty pattern occurring n times)
DefCycHist(x, m) == IF m = 0 THEN [p \in 0..0 |-> Len(x)]
                    ELSE HistOfSeq([i \in 1..Len(x) |-> CycPat(x, i, m)], Pow2(m))
\* the Go loop: tmp = pattern of the first m-1 bits; for i = m-1 .. n+m-2: shift in bits[i % n], count under three masks
AlgSerialHists(x, m) ==
   LET n == Len(x)
       prime == Pat(x, 1, m - 1)
       step(st, i) == LET t == 2 * st.tmp + x[(i % n) + 1]       \* Go index i -> x[i+1]
                          t1 == t % Pow2(m)  t2 == t % Pow2(m - 1)  t3 == t % Pow2(m - 2)
                      IN [tmp |-> t % Pow2(m),     \* only the low m bits ever matter
                          h1 |-> [st.h1 EXCEPT ![t1] = @ + 1], h2 |-> [st.h2 EXCEPT ![t2] = @ + 1], h3 |-> [st.h3 EXCEPT ![t3] = @ + 1]]
       z(k) == [p \in 0..(Pow2(k) - 1) |-> 0]
   IN FoldLeft(step, [tmp |-> prime, h1 |-> z(m), h2 |-> z(m - 1), h3 |-> z(m - 2)], [j \in 1..n |-> (m - 1) + j - 1])
Psi2(n, k, sumsq) == RSub(RDiv(RMul(Pow2(k), sumsq), n), n)
SerialPQ(n, m, s1, s2, s3) ==
   LET p1 == Psi2(n, m, s1)  p2 == Psi2(n, m - 1, s2)  p3 == Psi2(n, m - 2, s3)
       d1 == RSub(p1, p2)
       d2 == RAdd(RSub(p1, RMul(2, p2)), p3)
       P1 == RIgamcHalf(Pow2(m - 1), RDiv(d1, 2))     \* shape 2^(m-2)
       P2 == RIgamcHalf(Pow2(m - 2), RDiv(d2, 2))     \* shape 2^(m-3)
   IN [P |-> P1, Q |-> P1, P2 |-> P2, Q2 |-> P2]

(* ---------------- approximate entropy ---------------- *)
\* the Go loop: k = 1; blockSize times k = 2k + bit; pattern[k - 2^bs]++   (cyclic index (i+j) % n)
AlgApEnHist(x, bs) ==
   LET n == Len(x)
       kOf(i) == FoldLeft(LAMBDA k, j : 2 * k + x[((i + j) % n) + 1], 1, [t \in 1..bs |-> t - 1])
   IN FoldLeft(LAMBDA h, i : LET p == kOf(i) - Pow2(bs) IN [h EXCEPT ![p] = @ + 1],
               [p \in 0..(Pow2(bs) - 1) |-> 0], [t \in 1..n |-> t - 1])
\* phi = sum over occurring patterns of (c/n) ln(c/n)
Phi(h, size, n) == FoldLeft(LAMBDA a, p : IF h[p] > 0 THEN RAdd(a, RMul(RDiv(h[p], n), RLn(RDiv(h[p], n)))) ELSE a,
                            "0", [t \in 1..size |-> t - 1])
ApEnPQ(n, m, hm, hm1) ==
   LET apen == RSub(Phi(hm, Pow2(m), n), Phi(hm1, Pow2(m + 1), n))
       v == RMul(RMul(2, n), RSub(RLn(2), apen))
       p == RIgamcHalf(Pow2(m), RDiv(v, 2))           \* shape 2^(m-1)
   IN [P |-> p, Q |-> p]

(* ---------------- results on a sequence (Def side) ---------------- *)
SumSq(h, size) == FoldLeft(LAMBDA a, p : a + h[p] * h[p], 0, [t \in 1..size |-> t - 1])
MonoResult(x) == MonoPQ(DefMonoS(x), Len(x))
BlockResult(x, m) == BlockPQ(NBlocks(x, m), m, DefBlockDev(x, m))
PokerResult(x, m) == PokerPQ(NBlocks(x, m), m, SumSq(DefPokerHist(x, m), Pow2(m)))
SerialResult(x, m) == SerialPQ(Len(x), m, SumSq(DefCycHist(x, m), Pow2(m)), SumSq(DefCycHist(x, m - 1), Pow2(m - 1)),
                               SumSq(DefCycHist(x, m - 2), Pow2(m - 2)))
ApEnResult(x, m) == ApEnPQ(Len(x), m, DefCycHist(x, m), DefCycHist(x, m + 1))

(* ---------------- Alg = Def ---------------- *)
MonoAgrees(x) == AlgMonoSBits(x) = DefMonoS(x) /\ (Len(x) % 8 = 0 /\ Len(x) > 0 => AlgMonoSBytes(BitsToBytes(x)) = DefMonoS(x))
BlockAgrees(x, m) == AlgBlockDev(x, m) = DefBlockDev(x, m)
PokerAgrees(x, m) == /\ AlgPokerHistBits(x, m) = DefPokerHist(x, m)
                     /\ (Len(x) % 8 = 0 /\ m \in {4, 8} => AlgPokerHistBytes(BitsToBytes(x), m) = DefPokerHist(x, m))
SerialAgrees(x, m) == LET a == AlgSerialHists(x, m) IN
                      a.h1 = DefCycHist(x, m) /\ a.h2 = DefCycHist(x, m - 1) /\ a.h3 = DefCycHist(x, m - 2)
ApEnAgrees(x, m) == AlgApEnHist(x, m) = DefCycHist(x, m) /\ AlgApEnHist(x, m + 1) = DefCycHist(x, m + 1)
=============================================================================
