--------------------------- MODULE TraceSymmetry ---------------------------
(***************************************************************************)
(* Channel T for C17: {"ev":"sym","t","tau","rel","a":{P,Q,P2,Q2},         *)
(* "b":{..}} where a = test on x (for "swap": the partner variant on x)    *)
(* and b = test on tau(x).  The claimed relation comes from                *)
(* Symmetry!Relation, not from the driver.                                 *)
(***************************************************************************)
EXTENDS Integers, Sequences, TLC, Json, RealFn, SymmetryTable
Trace == ndJsonDeserialize("trace.ndjson")
VARIABLE l
Tol == "1e-9"     \* summation order differs between x and tau(x): up to 1.5e-10 observed for approximate entropy at 10^6 bits (V = 2n(ln 2 - ApEn) amplifies rounding)
Num4(r) == RIsNum(r.P) /\ RIsNum(r.Q) /\ RIsNum(r.P2) /\ RIsNum(r.Q2)
SameR(a, b) == RClose(a.P, b.P, Tol) /\ RClose(a.Q, b.Q, Tol) /\ RClose(a.P2, b.P2, Tol) /\ RClose(a.Q2, b.Q2, Tol)
EventOK(e) ==
   /\ e.panic = "" /\ Num4(e.a) /\ Num4(e.b)
   /\ LET rel == Relation(e.t, e.tau) IN
      CASE rel = "same"  -> SameR(e.a, e.b)
        [] rel = "swap"  -> SameR(e.a, e.b)
        [] rel = "qflip" -> RClose(e.a.P, e.b.P, Tol) /\ RClose(RAdd(e.a.Q, e.b.Q), 1, Tol)
        [] OTHER -> FALSE                                   \* the driver must not send pairs the table does not claim
Init == l = 1
Step == /\ l <= Len(Trace) /\ Trace[l].ev = "sym" /\ EventOK(Trace[l]) /\ l' = l + 1
Spec == Init /\ [][Step]_l
Accepted == TLCGet("stats").diameter - 1 = Len(Trace)
=============================================================================
