------------------------------ MODULE SimFast ------------------------------
(***************************************************************************)
(* Schedule generation for C08 (channel S, spec -> code): random           *)
(* behaviours of WorkflowFast.tla at the real number of samples, produced  *)
(* with `tlc -simulate`, are projected onto the two things a driver can    *)
(* impose on the real code from outside:                                   *)
(*   splits : the sequence of short-read sizes (k of C chunks per Read)    *)
(*   order  : the order in which the judged samples complete their round   *)
(* The history variable records them; the behaviour is printed when main   *)
(* returns.  The Go driver replays `splits` through the reader and `order` *)
(* through gates at the end of the stub rounds.                            *)
(***************************************************************************)
EXTENDS WorkflowFast, Json

VARIABLE hist      \* [splits |-> <<..>>, order |-> <<..>>, printed |-> BOOLEAN]
svars == <<vars, hist>>
SInit == Init /\ hist = [splits |-> <<>>, order |-> <<>>, printed |-> FALSE]
SampleOf(b) == b[1] \div C            \* stream sample index of a (genuine) buffer
SNext ==
  \/ \E w \in Workers : /\ ReadOK(w)
                        /\ hist' = [hist EXCEPT !.splits = Append(@, filled'[w] - filled[w])]
  \/ \E w \in Workers : /\ Done(w)
                        /\ hist' = [hist EXCEPT !.order = Append(@, SampleOf(buf[w]))]
  \/ /\ (MainAdd \/ MainOffer \/ MainSentAll \/ MainWait \/ \E w \in Workers : Recv(w) \/ Exit(w) \/ Lock(w) \/ ReadFail(w) \/ Unlock(w) \/ Round(w) \/ ErrDone(w))
     /\ UNCHANGED hist
  \/ /\ MainDecide
     /\ hist' = [hist EXCEPT !.printed = TRUE]
     /\ PrintT(ToJson([ev |-> "schedule", W |-> W, S |-> S, C |-> C, splits |-> hist.splits, order |-> hist.order]))
SSpec == SInit /\ [][SNext]_svars
=============================================================================
