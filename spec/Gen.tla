--------------------------------- MODULE Gen ---------------------------------
(***************************************************************************)
(* C20: tools/rdgen.  main: parse (s, n, o) -> Abs(o) -> mkdir -> wg.Add(s) *)
(* -> NumCPU writers -> send 0..s-1 on an unbuffered channel -> wait ->    *)
(* exit.  A writer: open Join(dir, "random<i>.bin") (create/truncate),     *)
(* read n/8 random bytes, write, close, Done.  The file system is a map    *)
(* path -> state.  UseOutDir = FALSE is the pinned commit: the writers     *)
(* build the name from the literal "target/data" and ignore -o.            *)
(***************************************************************************)
EXTENDS Integers, Sequences, FiniteSets, TLC
CONSTANTS S, W, UseOutDir, OutDir
None == 99
Writers == 1..W
DirUsed == IF UseOutDir THEN OutDir ELSE "target/data"
Path(dir, i) == <<dir, i>>
VARIABLES mainpc, wg, chan, sent, wpc, wjob, fs, exited
vars == <<mainpc, wg, chan, sent, wpc, wjob, fs, exited>>
Init == /\ mainpc = "add" /\ wg = 0 /\ chan = None /\ sent = 0 /\ wpc = [w \in Writers |-> "recv"] /\ wjob = [w \in Writers |-> None]
        /\ fs = [p \in {} |-> "x"] /\ exited = FALSE
MainAdd == mainpc = "add" /\ wg' = S /\ mainpc' = "send" /\ UNCHANGED <<chan, sent, wpc, wjob, fs, exited>>
MainOffer == mainpc = "send" /\ chan = None /\ sent < S /\ chan' = sent /\ UNCHANGED <<mainpc, wg, sent, wpc, wjob, fs, exited>>
MainSentAll == mainpc = "send" /\ chan = None /\ sent = S /\ mainpc' = "wait" /\ UNCHANGED <<wg, chan, sent, wpc, wjob, fs, exited>>
MainExit == mainpc = "wait" /\ wg = 0 /\ mainpc' = "exit" /\ exited' = TRUE /\ UNCHANGED <<wg, chan, sent, wpc, wjob, fs>>
Live == ~exited
Recv(w) == Live /\ wpc[w] = "recv" /\ chan # None /\ wjob' = [wjob EXCEPT ![w] = chan] /\ chan' = None /\ sent' = sent + 1
           /\ wpc' = [wpc EXCEPT ![w] = "open"] /\ UNCHANGED <<mainpc, wg, fs, exited>>
Open(w) == Live /\ wpc[w] = "open" /\ fs' = (Path(DirUsed, wjob[w]) :> "open") @@ fs /\ wpc' = [wpc EXCEPT ![w] = "write"]
           /\ UNCHANGED <<mainpc, wg, chan, sent, wjob, exited>>
WriteClose(w) == Live /\ wpc[w] = "write" /\ fs' = [fs EXCEPT ![Path(DirUsed, wjob[w])] = "complete"] /\ wpc' = [wpc EXCEPT ![w] = "done"]
                 /\ UNCHANGED <<mainpc, wg, chan, sent, wjob, exited>>
Done(w) == Live /\ wpc[w] = "done" /\ wg' = wg - 1 /\ wpc' = [wpc EXCEPT ![w] = "recv"] /\ UNCHANGED <<mainpc, chan, sent, wjob, fs, exited>>
Next == MainAdd \/ MainOffer \/ MainSentAll \/ MainExit \/ \E w \in Writers : Recv(w) \/ Open(w) \/ WriteClose(w) \/ Done(w)
Spec == Init /\ [][Next]_vars /\ WF_vars(Next)
FilesWhereTold == exited => /\ DOMAIN fs = {Path(OutDir, i) : i \in 0..(S - 1)}
                            /\ \A p \in DOMAIN fs : fs[p] = "complete"
NothingElsewhere == \A p \in DOMAIN fs : p[1] = OutDir
Terminates == <>exited
=============================================================================
