------------------------------ MODULE GenIgamc ------------------------------
(***************************************************************************)
(* C06 grid generator: for every shape a = twoA/2 in the configured set,   *)
(* an ascending chain of arguments x around the algorithm's switch-over    *)
(* lines (x = 1, x = a), across the bulk (a + t sqrt a) and far into both  *)
(* tails.  The chain is emitted as decimal strings; the Go driver rounds   *)
(* them to float64, evaluates the real Igamc and logs the exact arguments  *)
(* it used; TraceIgamc.tla judges.                                         *)
(***************************************************************************)
EXTENDS Integers, Sequences, FiniteSets, TLC, Json, SequencesExt, RealFn

CONSTANTS Shapes,     \* sequence of twoA values
          Stride
VARIABLE k

Region(twoA, x) ==   \* mirrors the case split of the algorithm, for coverage accounting only
   IF RLeq(x, 0) THEN "nonpositive"
   ELSE IF RLt(x, 1) \/ RLt(x, RDiv(twoA, 2)) THEN "series" ELSE "fraction"

Chain(twoA) ==
   LET a == RDiv(twoA, 2)  sa == RSqrt(a)
       around(c) == << RMul(c, "0.5"), RMul(c, "0.9990234375"), RMul(c, "0.99999999999909050529"), RMul(c, "0.99999999999999977796"), c,
                       RMul(c, "1.00000000000000022204"), RMul(c, "1.00000000000090949470"), RMul(c, "1.0009765625"), RMul(c, "1.5") >>
       bulk == [t \in 1..97 |-> RAdd(a, RMul(RDiv(t - 17, 2), sa))]          \* a + t sqrt a, t = -8 .. 40 step 1/2
       far == << RMul(a, 2), RMul(a, 3), RMul(a, 5), RMul(a, 10), RAdd(a, 690), RAdd(a, 709), RAdd(a, 745), RAdd(RMul(20, a), 200) >>
       raw == << "-1", "0", "1e-300", "1e-200", "1e-100", "1e-50", "1e-30", "1e-24", "1e-20", "1e-18", "1e-17", "1e-16", "1e-15", "1e-12", "1e-9", "1e-6", "1e-4", "0.001" >> \o around("1") \o around(a) \o bulk \o far
   IN [i \in 1..Len(raw) |-> IF RLt(raw[i], 0) /\ i > 2 THEN "0" ELSE raw[i]]

Init == k \in {-1 - s : s \in 0..(Stride - 1)}
Next == LET j == IF k < 0 THEN -1 - k ELSE k + Stride IN
        /\ j < Len(Shapes)
        /\ k' = j
        /\ PrintT(ToJson([ev |-> "chain", a2 |-> Shapes[j + 1], xs |-> Chain(Shapes[j + 1])]))
Spec == Init /\ [][Next]_k
=============================================================================
