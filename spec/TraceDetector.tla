--------------------------- MODULE TraceDetector ---------------------------
(***************************************************************************)
(* Channel T for C13: one run of the real rddetector binary (or of         *)
(* worker_1E8 driven directly), parsed into events:                        *)
(*  start  scale nfiles files(set as sequence) nbits                       *)
(*  header cells                                                           *)
(*  row    name vals table   table = library values of this file for every *)
(*                           (test, parameter) the scale documents         *)
(*  exit   code hang                                                       *)
(* The pipeline properties of Detector.tla are checked on the recorded     *)
(* run: header first, exactly one row per sample file, termination.        *)
(***************************************************************************)
EXTENDS Integers, Sequences, FiniteSets, TLC, Json, Columns
Trace == ndJsonDeserialize("trace.ndjson")
VARIABLES l, st
vars == <<l, st>>
Idle == [phase |-> "idle"]
Init == l = 1 /\ st = Idle

Start(e) == st.phase = "idle" /\ e.scale \in {20000, 1000000, 100000000}
            /\ st' = [phase |-> "started", scale |-> e.scale, files |-> {e.files[i] : i \in 1..Len(e.files)},
                      \* files whose suffix is .bin/.dat up to letter case: the property does not say whether ".BIN" is a sample;
                      \* either reading is accepted, but it must be ONE reading: all of them reported, or none
                      optional |-> {e.optional[i] : i \in 1..Len(e.optional)}, nbits |-> e.nbits,
                      exempt |-> e.exempt, cells |-> <<>>, seen |-> {}]
Header(e) == /\ st.phase = "started"
             /\ HeaderOK(st.scale, e.cells)
             /\ \A i \in 1..Len(e.cells) : NumTest(st.scale, e.cells[i].num) = "longest" /\ ~st.exempt => e.cells[i].lab = LongestLabel(st.nbits)
             /\ st' = [st EXCEPT !.phase = "rows", !.cells = e.cells]
Lookup(table, t, p) == CHOOSE r \in {table[i] : i \in 1..Len(table)} : r.t = t /\ r.p = p
Has(table, t, p) == \E i \in 1..Len(table) : table[i].t = t /\ table[i].p = p
Row(e) == /\ st.phase = "rows"
          /\ e.name \in (st.files \cup st.optional) /\ e.name \notin st.seen                    \* a sample file, reported once
          /\ Len(e.vals) = Len(st.cells)                                      \* as many value columns as the header
          /\ \A c \in 1..Len(st.cells) :
               LET cell == st.cells[c]  t == NumTest(st.scale, cell.num) IN
               /\ Has(e.table, t, cell.p)
               /\ LET v == Field(Lookup(e.table, t, cell.p), cell.which) IN RIsNum(v) /\ RIsNum(e.vals[c]) /\ e.vals[c] = RFixed(v, 6)
          /\ st' = [st EXCEPT !.seen = @ \cup {e.name}]
Exit(e) == /\ st.phase = "rows" /\ e.hang = FALSE /\ e.code = 0
           /\ (st.seen = st.files \/ st.seen = st.files \cup st.optional)     \* exactly one row per sample file
           /\ st' = Idle
\* beyond the listed property: a directory whose samples have none of the three supported sizes is refused -- the tool
\* terminates and leaves no report behind (usage text: "支持单文件规模 [20 000, 1 000 000, 100 000 000]")
Unsupported(e) == st.phase = "idle" /\ e.hang = FALSE /\ e.report_exists = FALSE /\ UNCHANGED st
Step == /\ l <= Len(Trace)
        /\ LET e == Trace[l] IN
             CASE e.ev = "start" -> Start(e) [] e.ev = "header" -> Header(e) [] e.ev = "row" -> Row(e) [] e.ev = "exit" -> Exit(e) [] e.ev = "unsupported" -> Unsupported(e) [] OTHER -> FALSE
        /\ l' = l + 1
Spec == Init /\ [][Step]_vars
Accepted == TLCGet("stats").diameter - 1 = Len(Trace)
=============================================================================
