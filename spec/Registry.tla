------------------------------ MODULE Registry ------------------------------
(***************************************************************************)
(* C15 / C16: the registry of the fifteen tests (structs.go TestMethodArr), *)
(* the defaults of the registry runners, the two round functions           *)
(* (detect/round.go) and the well-formedness of every result.              *)
(* Test ids are the standard's numbering 1..15.                            *)
(***************************************************************************)
EXTENDS Integers, Sequences, FiniteSets, RealFn

Tests == <<"mono", "block", "poker", "serial", "runs", "rundist", "longest", "bd", "ac", "rank", "cusum", "apen", "lc", "maurer", "dft">>
\* default parameter of registry runner i (10^6-bit defaults); 0 = no parameter / automatic
Default == <<0, 0, 8, 5, 0, 0, 1, 7, 16, 32, 1, 5, 500, 0, 0>>   \* poker m=8, serial m=5, longest run of ones, bd k=7, ac d=16, 32x32, cusum forward, apen m=5, lc m=500
Round15 == [i \in 1..15 |-> i]
Round12 == SubSeq(Round15, 1, 12)
ExcludedFromRound12 == {"lc", "maurer", "dft"}
RegistryFacts == /\ Len(Tests) = 15 /\ Len(Round12) = 12
                 /\ {Tests[i] : i \in 13..15} = ExcludedFromRound12
                 /\ \A i \in 1..12 : Tests[Round12[i]] \notin ExcludedFromRound12
                 /\ Tests[3] = "poker" /\ Tests[4] = "serial" /\ Tests[10] = "rank" /\ Tests[11] = "cusum"
ASSUME RegistryFacts

TwoSided == {"mono", "runs", "bd", "ac", "maurer", "dft"}
Slack == "1e-9"
\* r = [P, Q, P2, Q2 (decimal strings of the float64), Pb, Qb, P2b, Q2b (bit patterns), pass]
ResultOK(t, r, isRunner) ==
   /\ RIsNum(r.P) /\ RIsNum(r.Q)                                      \* finite, never NaN / Inf
   /\ RInUnit(r.P, Slack) /\ RInUnit(r.Q, Slack)
   /\ (t = "serial" => RIsNum(r.P2) /\ RIsNum(r.Q2) /\ RInUnit(r.P2, Slack) /\ RInUnit(r.Q2, Slack) /\ r.Q2b = r.P2b)
   /\ IF t \in TwoSided THEN RClose(r.P, RMul(2, RMin(r.Q, RSub(1, r.Q))), Slack)
      ELSE r.Qb = r.Pb                                               \* chi-square family: Q = P
   /\ (isRunner => (r.pass <=> RGeq(IF t = "serial" THEN RMin(r.P, r.P2) ELSE r.P, "0.01")))
=============================================================================
