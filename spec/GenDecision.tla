---------------------------- MODULE GenDecision ----------------------------
(***************************************************************************)
(* C12 generator / model: enumerates every multiset of Q-values of size    *)
(* 1..MaxLen over a 21-value palette that sits on and between the bin      *)
(* edges, computes the uniformity statistic with the real layer, and emits *)
(* each as a replay vector (channel R) together with two permutations.     *)
(* Model-level invariants: order independence, range, threshold facts.     *)
(***************************************************************************)
EXTENDS Integers, Sequences, FiniteSets, TLC, Json, SequencesExt, Decision

CONSTANTS MaxLen, SMax

Palette == <<"0", "0.05", "0.1", "0.15", "0.2", "0.25", "0.3", "0.35", "0.4", "0.45", "0.5",
             "0.55", "0.6", "0.65", "0.7", "0.75", "0.8", "0.85", "0.9", "0.95", "1">>

VARIABLE lst     \* nondecreasing sequence of palette indices

Qs(l) == [i \in 1..Len(l) |-> Palette[l[i]]]
Rot(q, r) == [i \in 1..Len(q) |-> q[((i - 1 + r) % Len(q)) + 1]]
SumIdx(l) == IF l = <<>> THEN 0 ELSE FoldLeft(LAMBDA a, b : a + b, 0, l)

Vector(l) == LET q == Qs(l) IN
   [ev |-> "thresholdq", qs |-> q, rev |-> Reverse(q), rot |-> Rot(q, SumIdx(l) % Len(l)),
    hist |-> Hist(q), expected |-> ThresholdQ(q)]

Init == lst = <<>>
Next == /\ Len(lst) < MaxLen
        /\ \E p \in (IF lst = <<>> THEN 1 ELSE lst[Len(lst)])..Len(Palette) :
             /\ lst' = Append(lst, p)
             /\ PrintT(ToJson(Vector(lst')))

OrderIndependent == lst # <<>> =>
     LET q == Qs(lst) IN /\ ThresholdQ(q) = ThresholdQ(Reverse(q))
                         /\ ThresholdQ(q) = ThresholdQ(Rot(q, SumIdx(lst) % Len(lst)))
InRange == lst # <<>> => RInUnit(ThresholdQ(Qs(lst)), "0")
HistTotal == lst # <<>> => LET h == Hist(Qs(lst)) IN
     h[0] + h[1] + h[2] + h[3] + h[4] + h[5] + h[6] + h[7] + h[8] + h[9] = Len(lst)
\* the integer form and the real form of the chi-square numerator agree
ChiForms == lst # <<>> => REq(RChiNumUpTo(Hist(Qs(lst)), Len(lst), 9), ChiNum(Hist(Qs(lst)), Len(lst)))

ASSUME AnchorsOK
ASSUME \A s \in 1..SMax : UniqueThreshold(s)
\* thresholds are monotone and grow by at most one per sample
ASSUME \A s \in 1..(SMax - 1) : ThresholdOf(s + 1) - ThresholdOf(s) \in {0, 1}
=============================================================================
