----------------------------- MODULE HistoryApa -----------------------------
(* Typed copy of History.tla for Apalache, with the PURE settings of the three switches (a recycled buffer is cut to the
   requested length, the memo is keyed by everything the value depends on, a smaller request derives its table into a copy)
   and without the history variables: `lastOK` says that the most recent result was the one the call gives alone.
   Inductive invariant: the memo holds only ideal values, the shared table is never dirty, lastOK.  This extends
   History!HistoryIndependent from histories of at most MaxCalls calls (TLC) to histories of ANY length, for fixed numbers
   of length classes and data variants.  The impure settings stay with TLC (negative controls of History.tla). *)
EXTENDS Integers, Apalache

CONSTANTS
  \* @type: Int;
  NLen,
  \* @type: Int;
  NVar
VARIABLES
  \* @type: Int;
  poolCap,
  \* @type: Int;
  poolLen,
  \* @type: <<Int, Int>> -> Int;
  memo,
  \* @type: Int;
  tableSize,
  \* @type: Bool;
  tableDirty,
  \* @type: Bool;
  lastOK

CInitSmall == NLen = 3 /\ NVar = 2
CInitBig == NLen = 6 /\ NVar = 4

Keys == (1..NLen) \X (1..NVar)
\* @type: (<<Int, Int>>) => Int;
Ideal(c) == c[1] * 100 + c[2]
Max(a, b) == IF a > b THEN a ELSE b

Init == /\ poolCap = 0 /\ poolLen = 0 /\ memo = [k \in Keys |-> -1]
        /\ tableSize = 0 /\ tableDirty = FALSE /\ lastOK = TRUE

\* @type: (<<Int, Int>>) => Bool;
Call(c) ==
   LET L == c[1]
       eff == L                                                   \* Reslice = TRUE
       usedDirty == IF L > tableSize THEN FALSE ELSE tableDirty
       computed == eff * 100 + c[2] + (IF usedDirty THEN 50 ELSE 0)
       cached == memo[c]                                          \* MemoKey = "full"
       value == IF cached >= 0 THEN cached ELSE computed
   IN /\ poolCap' = Max(poolCap, L) /\ poolLen' = eff
      /\ memo' = IF cached >= 0 THEN memo ELSE [memo EXCEPT ![c] = computed]
      /\ tableSize' = IF L > tableSize THEN L ELSE tableSize
      /\ tableDirty' = IF L > tableSize THEN FALSE ELSE tableDirty       \* DeriveCopy = TRUE: a smaller request leaves it alone
      /\ lastOK' = (value = Ideal(c))

Next == \E c \in Keys : Call(c)

TypeOK == /\ poolCap \in 0..NLen /\ poolLen \in 0..NLen /\ tableSize \in 0..NLen
          /\ memo \in [Keys -> Int]
IndInv == /\ TypeOK
          /\ tableDirty = FALSE
          /\ \A k \in Keys : memo[k] = -1 \/ memo[k] = Ideal(k)
          /\ lastOK
IndInit == /\ poolCap \in 0..NLen /\ poolLen \in 0..NLen /\ tableSize \in 0..NLen
           /\ memo \in [Keys -> (-1)..(100 * NLen + NVar)]
           /\ tableDirty \in BOOLEAN /\ lastOK \in BOOLEAN
           /\ IndInv
AlwaysIdeal == lastOK
=============================================================================
