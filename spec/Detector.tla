------------------------------ MODULE Detector ------------------------------
(***************************************************************************)
(* C13: the goroutine pipeline of tools/rddetector/main.go.                *)
(*  main    : count sample files -> wg.Add(s) -> write header -> start the *)
(*            writer, n workers, the walker -> wg.Wait -> exit (closes the *)
(*            report)                                                      *)
(*  walker  : sends every sample path on the unbuffered channel `jobs`     *)
(*  worker  : receives a path, computes the row, SPAWNS a sender goroutine *)
(*  sender  : sends the row on the unbuffered channel `out`                *)
(*  writer  : receives a row, writes it, wg.Done()                         *)
(* Properties: termination; at exit the report holds the header first and  *)
(* exactly one row per sample file; rows are written whole (one writer).   *)
(* WgCount lets the negative control miscount the files.                   *)
(***************************************************************************)
EXTENDS Integers, Sequences, FiniteSets, TLC

CONSTANTS Files,      \* set of sample files
          NW,         \* number of workers
          WgCount     \* what main passes to wg.Add (= Cardinality(Files) in the real tool)
None == "none"
Workers == 1..NW
VARIABLES mainpc, wg, report, jobs, out, toWalk, wpc, wjob, senders, exited
vars == <<mainpc, wg, report, jobs, out, toWalk, wpc, wjob, senders, exited>>

Init == /\ mainpc = "add" /\ wg = 0 /\ report = <<>> /\ jobs = None /\ out = None
        /\ toWalk = Files /\ wpc = [w \in Workers |-> "idle"] /\ wjob = [w \in Workers |-> None]
        /\ senders = {} /\ exited = FALSE
MainAdd == mainpc = "add" /\ wg' = WgCount /\ mainpc' = "header" /\ UNCHANGED <<report, jobs, out, toWalk, wpc, wjob, senders, exited>>
MainHeader == mainpc = "header" /\ report' = <<"HEADER">> /\ mainpc' = "wait" /\ UNCHANGED <<wg, jobs, out, toWalk, wpc, wjob, senders, exited>>
MainExit == mainpc = "wait" /\ wg = 0 /\ mainpc' = "exit" /\ exited' = TRUE /\ UNCHANGED <<wg, report, jobs, out, toWalk, wpc, wjob, senders>>
Started == mainpc \in {"wait"} /\ ~exited          \* goroutines run only between start and process exit
Walk == /\ Started /\ jobs = None /\ toWalk # {}
        /\ \E f \in toWalk : jobs' = f /\ toWalk' = toWalk \ {f}
        /\ UNCHANGED <<mainpc, wg, report, out, wpc, wjob, senders, exited>>
Recv(w) == /\ Started /\ wpc[w] = "idle" /\ jobs # None
           /\ wjob' = [wjob EXCEPT ![w] = jobs] /\ jobs' = None /\ wpc' = [wpc EXCEPT ![w] = "work"]
           /\ UNCHANGED <<mainpc, wg, report, out, toWalk, senders, exited>>
Spawn(w) == /\ Started /\ wpc[w] = "work"
            /\ senders' = senders \cup {wjob[w]} /\ wpc' = [wpc EXCEPT ![w] = "idle"]
            /\ UNCHANGED <<mainpc, wg, report, jobs, out, toWalk, wjob, exited>>
Send == /\ Started /\ out = None /\ \E f \in senders : out' = f /\ senders' = senders \ {f}
        /\ UNCHANGED <<mainpc, wg, report, jobs, toWalk, wpc, wjob, exited>>
Write == /\ Started /\ out # None
         /\ report' = Append(report, out) /\ out' = None /\ wg' = wg - 1
         /\ UNCHANGED <<mainpc, jobs, toWalk, wpc, wjob, senders, exited>>
Next == MainAdd \/ MainHeader \/ MainExit \/ Walk \/ Send \/ Write \/ \E w \in Workers : Recv(w) \/ Spawn(w)
Spec == Init /\ [][Next]_vars /\ WF_vars(Next)

Rows == {report[i] : i \in 2..Len(report)}
HeaderFirst == Len(report) >= 1 => report[1] = "HEADER"
OneRowPerFile == exited => /\ Rows = Files /\ Len(report) = 1 + Cardinality(Files)
NoDuplicateRows == \A i, j \in 2..Len(report) : i # j => report[i] # report[j]
WgNonNegative == wg >= 0
Terminates == <>exited
=============================================================================
