------------------------------ MODULE Columns ------------------------------
(***************************************************************************)
(* C13: the report schema of tools/rddetector.  A header cell is           *)
(* "[num] which name param"; the specification maps the bracketed number   *)
(* to a test per scale, and the oracle for a value is "what the header     *)
(* says": the library's P/Q value for that test and parameter.             *)
(* Cells arrive tokenised: [num, which, p] with p in                        *)
(*   "" | "m=3" | "k=7" | "d=16" | "fwd" | "bwd" | "ones" | "zeros"        *)
(* and lab = the block-length label of the longest-run columns ("m=128").  *)
(***************************************************************************)
EXTENDS Integers, Sequences, FiniteSets, RealFn

Tests15 == <<"mono", "block", "poker", "serial", "runs", "rundist", "longest", "bd", "ac", "rank", "cusum", "apen", "lc", "maurer", "dft">>
Tests12 == <<"mono", "block", "poker", "serial", "runs", "rundist", "longest", "bd", "ac", "cusum", "apen", "dft">>   \* 2*10^4-bit scale: no rank, lc, maurer
NumTest(scale, num) == IF scale = 20000 THEN Tests12[num] ELSE Tests15[num]
MaxNum(scale) == IF scale = 20000 THEN 12 ELSE 15
\* structure of a header: P/Q (or P1/Q1, P2/Q2) cells come in adjacent pairs naming the same test and parameter
PairOK(a, b) == /\ a.num = b.num /\ a.p = b.p /\ a.lab = b.lab
                /\ <<a.which, b.which>> \in {<<"P", "Q">>, <<"P1", "Q1">>, <<"P2", "Q2">>}
HeaderOK(scale, cells) ==
   /\ Len(cells) % 2 = 0 /\ Len(cells) >= 2
   /\ \A i \in 1..Len(cells) : cells[i].num \in 1..MaxNum(scale)
   /\ \A i \in 1..(Len(cells) \div 2) : PairOK(cells[2 * i - 1], cells[2 * i])
   /\ \A i \in 1..(Len(cells) - 1) : cells[i].num <= cells[i + 1].num
   /\ {cells[i].num : i \in 1..Len(cells)} = 1..MaxNum(scale)                    \* every test of the scale is reported
   /\ \A i \in 1..Len(cells) : (NumTest(scale, cells[i].num) = "serial") = (cells[i].which \in {"P1", "Q1", "P2", "Q2"})
\* longest-run block length label must be the regime block length of the sample size
LongestLabel(nbits) == IF nbits >= 750000 THEN "m=10000" ELSE IF nbits >= 6272 THEN "m=128" ELSE "m=8"
\* which field of the library result a cell shows
Field(r, which) == CASE which \in {"P", "P1"} -> r.P [] which \in {"Q", "Q1"} -> r.Q [] which = "P2" -> r.P2 [] which = "Q2" -> r.Q2
=============================================================================
