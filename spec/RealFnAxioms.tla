---------------------------- MODULE RealFnAxioms ----------------------------
(***************************************************************************)
(* Defining properties of the real-number primitives, checked by TLC on a  *)
(* grid (run at setup and by the C06 check).  They tie the Java override   *)
(* to mathematics that does not depend on the code under test:             *)
(*   Q(a+1,x) = Q(a,x) + x^a e^-x / Gamma(a+1)   (recurrence in the shape) *)
(*   Q(1/2,x) = erfc(sqrt x),  Q(1,x) = e^-x                               *)
(*   erfc(0) = 1, erfc(-x) = 2 - erfc(x), Phi(x) = erfc(-x/sqrt2)/2        *)
(*   exp(ln x) = x, exp(a+b) = exp a exp b, sqrt(x)^2 = x                  *)
(*   cos^2 + sin^2 = 1, addition theorem                                   *)
(*   longest-run recurrence = brute force over all words, m <= 10          *)
(***************************************************************************)
EXTENDS Integers, Sequences, FiniteSets, TLC, RealFn

Eps == "1e-38"
Near(a, b) == RClose(a, b, RMul(Eps, RMax(1, RAbs(b))))

Xs == {"0.001", "0.1", "0.5", "0.99", "1", "1.5", "2", "3.7", "10", "25.25", "100", "433.3", "2000"}

\* Gamma at integers and half-integers, via the functional equation
RECURSIVE GammaHalf(_)
GammaHalf(twoA) == IF twoA = 1 THEN RSqrt("3.14159265358979323846264338327950288419716939937510582097494")
                   ELSE IF twoA = 2 THEN "1"
                   ELSE RMul(RDiv(twoA - 2, 2), GammaHalf(twoA - 2))

\* x^(twoA/2)
PowHalf(x, twoA) == IF twoA % 2 = 0 THEN RPowInt(x, twoA \div 2)
                    ELSE RMul(RPowInt(x, (twoA - 1) \div 2), RSqrt(x))

AxIgamcRecurrence ==
  \A twoA \in 1..60 : \A x \in Xs :
     Near(RIgamcHalf(twoA + 2, x),
          RAdd(RIgamcHalf(twoA, x), RDiv(RMul(PowHalf(x, twoA), RExp(RNeg(x))), GammaHalf(twoA + 2))))

AxIgamcBase ==
  \A x \in Xs : /\ Near(RIgamcHalf(1, x), RErfc(RSqrt(x)))
                /\ Near(RIgamcHalf(2, x), RExp(RNeg(x)))
                /\ REq(RIgamcHalf(1, "0"), 1) /\ REq(RIgamcHalf(7, "-3"), 1)

AxIgamcMonotone ==
  \A twoA \in {1, 2, 3, 9, 10, 31, 64, 255, 1000} :
     \A x \in Xs : \A y \in Xs : RLeq(x, y) => RLeq(RIgamcHalf(twoA, y), RIgamcHalf(twoA, x))

AxErfc ==
  /\ REq(RErfc("0"), 1)
  /\ \A x \in Xs : Near(RErfc(RNeg(x)), RSub(2, RErfc(x)))
  /\ \A x \in Xs : Near(RPhi(x), RDiv(RErfc(RNeg(RDiv(x, RSqrt(2)))), 2))
  /\ \A x \in Xs : Near(RAdd(RPhi(x), RPhi(RNeg(x))), 1)
  \* independent anchor values (Abramowitz & Stegun 7.1, 30 digits)
  /\ RClose(RErfc("0.5"), "0.479500122186953462317253346108", "1e-29")
  /\ RClose(RErfc("1"),   "0.157299207050285130658779364917", "1e-29")
  /\ RClose(RErfc("2"),   "0.00467773498104726583793074363275", "1e-30")
  /\ RClose(RErfc("3"),   "0.0000220904969985854413727761295823", "1e-32")
  /\ RClose(RErfc("5"),   "1.53745979442803485018834348538e-12", "1e-40")

AxExpLn ==
  /\ \A x \in Xs : Near(RExp(RLn(x)), x)
  /\ \A x \in Xs : \A y \in Xs : Near(RExp(RAdd(x, y)), RMul(RExp(x), RExp(y)))
  /\ \A x \in Xs : Near(RSq(RSqrt(x)), x)
  /\ Near(RLog2("1024"), 10) /\ Near(RLn("2.718281828459045235360287471352662497757247093699959574966967"), 1)
  /\ RClose(RExp(1), "2.718281828459045235360287471352662497757247093699959574966967", "1e-40")

AxTrig ==
  \A n \in {1, 2, 4, 8, 16, 64, 1024} : \A k \in {0, 1, 2, 3, 5, 7, 15, 100} :
     /\ Near(RAdd(RSq(RCosTurn(k, n)), RSq(RSinTurn(k, n))), 1)
     /\ RClose(RCosTurn(2 * k, n), RSub(RSq(RCosTurn(k, n)), RSq(RSinTurn(k, n))), Eps)
     /\ (k % n = 0 => REq(RCosTurn(k, n), 1) /\ REq(RSinTurn(k, n), 0))
     /\ ((4 * k) % n = 0 /\ ((4 * k) \div n) % 4 = 1 => RClose(RSinTurn(k, n), 1, Eps))

\* longest run of ones of a word given as a function 1..m -> {0,1}
RECURSIVE LR(_, _, _, _)
LR(w, i, cur, best) == IF i > Len(w) THEN best
                       ELSE IF w[i] = 1 THEN LR(w, i + 1, cur + 1, IF cur + 1 > best THEN cur + 1 ELSE best)
                       ELSE LR(w, i + 1, 0, best)
AxLongestRun ==
  \A m \in 1..10 : \A r \in 0..m :
     RLongestRunCount(m, r) = ToString(Cardinality({w \in [1..m -> {0, 1}] : LR(w, 1, 0, 0) <= r}))
AxLongestRunProb ==
  \A m \in {8, 128, 10000} : \A r \in {0, 1, 4, 9, 13, 20} :
     Near(RLongestRunLeq(m, r), RDiv(RInt(RLongestRunCount(m, r)), RPowInt(2, m)))

AxOrder ==
  /\ RLeq("0.1", "0.1") /\ ~RLt("0.1", "0.1") /\ RLt("0.09999999999999999", "0.1")
  /\ RIsNum("1e-300") /\ RIsNum(5) /\ ~RIsNum("NaN") /\ ~RIsNum("+Inf") /\ ~RIsNum(<<1>>)
  /\ RFloor("2.5") = 2 /\ RCeil("2.5") = 3 /\ RFloor("-2.5") = -3 /\ RCeil("2") = 2
  /\ RFixed("0.1234565", 6) = "0.123456" /\ RFixed("1", 6) = "1.000000"

AxMulMod == /\ \A a \in {0, 1, 7, 1000, 46340} : \A b \in {0, 3, 999, 46340} : \A n \in {1, 2, 1024, 99991} : RMulMod(a, b, n) = ((a * b) % n)
            /\ RMulMod(1048575, 1048575, 1048576) = 1 /\ RMulMod(2000000000, 2000000000, 7) = 4
ASSUME AxMulMod
ASSUME AxIgamcRecurrence
ASSUME AxIgamcBase
ASSUME AxIgamcMonotone
ASSUME AxErfc
ASSUME AxExpLn
ASSUME AxTrig
ASSUME AxLongestRun
ASSUME AxLongestRunProb
ASSUME AxOrder
ASSUME PrintT(<<"RealFnAxioms", "checked">>)

VARIABLE dummy
Init == dummy = 0
Next == UNCHANGED dummy
=============================================================================
