------------------------------ MODULE StuckAt ------------------------------
(***************************************************************************)
(* C14 composition argument, checked by TLC:                               *)
(*  a byte stream of period p <= 64 puts at most p distinct byte values in *)
(*  every sample, so the m = 8 poker histogram of a sample of N bytes has  *)
(*  sum n_i^2 >= N^2/p (Cauchy-Schwarz), i.e. V >= (256/p - 1) N, hence    *)
(*  P = Q(255/2, V/2) < 0.01; the poker item (registry item 3) then fails  *)
(*  on every sample, its pass count is 0 < threshold, and the verdict of   *)
(*  every workflow is false with the error naming a failing item.          *)
(*  A constant sequence puts all mass on one m-bit pattern for m = 2,4,8.  *)
(***************************************************************************)
EXTENDS Integers, Sequences, FiniteSets, TLC, Decision, Single

VLow(p, N) == RMul(RSub(RDiv(256, p), 1), N)
PokerBoundFails == \A p \in 1..64 : \A N \in {2500, 125000} : RLt(RIgamcHalf(255, RDiv(VLow(p, N), 2)), "0.01")
\* P is decreasing in V (so the bound on V is a bound on P)
Monotone == \A N \in {2500} : \A p \in 1..63 : RLeq(RIgamcHalf(255, RDiv(VLow(p, N), 2)), RIgamcHalf(255, RDiv(VLow(p + 1, N), 2)))
\* item 3 never passing forces a false verdict naming a failing item, whatever the other items do
RejectsWhenPokerFails == \A s \in {20, 50} : \A items \in {12, 15} :
   LET cnt == [i \in 1..items |-> IF i = 3 THEN 0 ELSE s]
       hist == [i \in 1..items |-> [b \in 0..9 |-> IF b = 0 THEN s ELSE 0]]
   IN ~VerdictTrue(cnt, hist, s, items) /\ NamedItem(cnt, hist, s, items) = 3
\* constant content: one pattern holds all N blocks: V = (2^m - 1) N
ConstantSingleFails == \A nb \in {16, 39, 40, 1279, 1280, 4096, 125000} :
   LET m == SelectPokerM(nb)  N == (8 * nb) \div m IN RLt(PokerPQ(N, m, RMul(N, N)).P, "0.01")
ASSUME PokerBoundFails
ASSUME Monotone
ASSUME RejectsWhenPokerFails
ASSUME ConstantSingleFails
VARIABLE v
Init == v = 0
Next == UNCHANGED v
=============================================================================
