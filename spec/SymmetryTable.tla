--------------------------- MODULE SymmetryTable ---------------------------
(***************************************************************************)
(* C17: the table  Relation(test, transformation)  (see Symmetry.tla for   *)
(* its meaning and for the model check that validates every entry against *)
(* the Def operators).                                                     *)
(***************************************************************************)
EXTENDS Integers, Sequences
Taus == <<"complement", "reverse", "rotate", "permblocks", "tail">>
TestsT == <<"mono", "block", "poker", "serial", "runs", "rundist", "longest", "bd", "ac", "rank", "cusum", "apen", "lc", "maurer", "dft">>
Relation(t, tau) ==
   CASE tau = "complement" -> IF t \in {"rank", "lc"} THEN "none" ELSE IF t = "mono" THEN "qflip" ELSE IF t = "longest" THEN "swap" ELSE "same"
     [] tau = "reverse"    -> IF t \in {"mono", "runs", "rundist", "ac", "bd", "serial", "apen"} THEN "same" ELSE IF t = "cusum" THEN "swap" ELSE "none"
     [] tau = "rotate"     -> IF t \in {"serial", "apen"} THEN "same" ELSE "none"
     [] tau \in {"permblocks", "tail"} -> IF t \in {"block", "poker", "longest", "rank", "lc"} THEN "same" ELSE "none"
Table == [i \in 1..(Len(TestsT) * Len(Taus)) |->
            LET t == TestsT[((i - 1) % Len(TestsT)) + 1]  tau == Taus[((i - 1) \div Len(TestsT)) + 1] IN [t |-> t, tau |-> tau, rel |-> Relation(t, tau)]]

=============================================================================
