----------------------------- MODULE TraceIgamc -----------------------------
(***************************************************************************)
(* Channel T for C06: one event per chain                                  *)
(*    {"ev":"igamc","a2":twoA,"xs":[x_1 <= x_2 <= ...],"qs":[Igamc(a,x_i)]}*)
(* with the float64 arguments actually used (exact shortest decimals).     *)
(*   Accurate   |q - Q(a,x)| <= 1e-12 + 1e-14 a                            *)
(*   InUnit     0 <= q <= 1        ExactOne   x <= 0 => q = 1              *)
(*   Monotone   x_i <= x_{i+1} => q_{i+1} <= q_i + 2 eps(a)                *)
(*   Pure       the value does not depend on earlier or concurrent calls   *)
(* Q(a,x) is the closed finite form of the real layer (not the algorithm   *)
(* under test).                                                            *)
(***************************************************************************)
EXTENDS Integers, Sequences, TLC, Json, RealFn

Trace == ndJsonDeserialize("trace.ndjson")
VARIABLE l
Eps(a2) == RAdd("1e-12", RMul("1e-14", RDiv(a2, 2)))
PointOK(a2, x, q) ==
   /\ RIsNum(x) /\ RIsNum(q)
   /\ RLeq(0, q) /\ RLeq(q, 1)
   /\ (RLeq(x, 0) => REq(q, 1))
   /\ RClose(q, RIgamcHalf(a2, x), Eps(a2))
ChainOK(e) ==
   /\ e.a2 \in 1..10000 /\ Len(e.xs) = Len(e.qs) /\ Len(e.xs) >= 1
   /\ e.nondet = FALSE          \* the same chain evaluated again, later and concurrently with other shapes, gave the same bits
   /\ \A i \in 1..Len(e.xs) : PointOK(e.a2, e.xs[i], e.qs[i])
   /\ \A i \in 1..(Len(e.xs) - 1) : RLeq(e.xs[i], e.xs[i + 1]) /\ RLeq(e.qs[i + 1], RAdd(e.qs[i], RMul(2, Eps(e.a2))))
Init == l = 1
Step == /\ l <= Len(Trace) /\ Trace[l].ev = "igamc" /\ ChainOK(Trace[l]) /\ l' = l + 1
Spec == Init /\ [][Step]_l
Accepted == TLCGet("stats").diameter - 1 = Len(Trace)
=============================================================================
