----------------------------- MODULE GenSingle -----------------------------
(***************************************************************************)
(* C11 model + generator: m-selection and error rule for every length      *)
(* 0..MaxLen (invariant), and byte contents whose poker P-value is dialled *)
(* through 0.01 one byte at a time (the last t bytes are forced to one     *)
(* byte value), emitted with the verdict under the selected m and the      *)
(* P-values under the other two m (a wrong m then gives another verdict).  *)
(***************************************************************************)
EXTENDS Integers, Sequences, FiniteSets, TLC, Json, Single

CONSTANTS MaxLen, Lens, Dials, Seeds, Stride
VARIABLE k
M0 == 46337
Mix(a) == ((a % M0) * (a % M0) + 12345) % M0
H(seed, i) == Mix(Mix(Mix((i % M0) * 7919 + seed * 104 + 17) + (i \div M0)) + seed)
Descs == [j \in 1..(Len(Lens) * Len(Dials) * Len(Seeds)) |->
            LET a == (j - 1) % Len(Lens)  b == ((j - 1) \div Len(Lens)) % Len(Dials)  c == (j - 1) \div (Len(Lens) * Len(Dials))
            IN [nb |-> Lens[a + 1], t |-> Dials[b + 1], seed |-> Seeds[c + 1]]]
\* dials >= 1000 are structured contents that one pattern length sees and another does not:
\*   1000: every byte 0x1B = 00 01 10 11 (2-bit patterns perfectly balanced, only 2 of 16 nibbles, 1 of 256 bytes)
\*   1001: bytes 01 23 45 67 89 AB CD EF cyclically (nibbles perfectly balanced, 8 of 256 bytes)
\*   1002/1003: the same with 10 % noise
Cyc8 == <<1, 35, 69, 103, 137, 171, 205, 239>>
Content(d) == Force([i \in 1..d.nb |->
     CASE d.t = 1000 -> 27
       [] d.t = 1001 -> Cyc8[(i % 8) + 1]
       [] d.t = 1002 -> IF H(d.seed + 1, i) % 10 = 0 THEN (H(d.seed, i) \div 4) % 256 ELSE 27
       [] d.t = 1003 -> IF H(d.seed + 1, i) % 10 = 0 THEN (H(d.seed, i) \div 4) % 256 ELSE Cyc8[(i % 8) + 1]
       \* dials 0..999: the last t bytes are overwritten with one fixed byte value: P falls through 0.01 one byte at a time
       [] OTHER -> IF i > d.nb - d.t THEN (H(d.seed, 0) % 256) ELSE (H(d.seed, i) \div 4) % 256])
PUnder(bytes, m) == PokerResult(BytesToBits(bytes), m).P
Vector(j) == LET d == Descs[j + 1]  bs == Content(d)  sv == SingleVerdict(bs) IN
   [ev |-> "single", label |-> d, bytes |-> bs, verdict |-> sv.verdict, err |-> sv.err, m |-> sv.m, P |-> sv.P,
    P2 |-> PUnder(bs, 2), P4 |-> PUnder(bs, 4), P8 |-> PUnder(bs, 8)]
Init == k \in {-1 - s : s \in 0..(Stride - 1)}
Next == LET j == IF k < 0 THEN -1 - k ELSE k + Stride IN
        /\ j < Len(Descs)
        /\ k' = j
        /\ PrintT(ToJson(Vector(j)))
Spec == Init /\ [][Next]_k
ASSUME \A nb \in 0..MaxLen : MRuleOK(nb)
ASSUME SelectPokerM(39) = 2 /\ SelectPokerM(40) = 4 /\ SelectPokerM(1279) = 4 /\ SelectPokerM(1280) = 8 /\ TooShort(15) /\ ~TooShort(16)
=============================================================================
