--------------------------- MODULE DecisionProofs ---------------------------
(***************************************************************************)
(* TLAPS proofs about the exact integer threshold predicate of             *)
(* Decision.tla, for ALL sample counts (TLC checks them for s <= SMax):    *)
(*   PredMonotone : Pred(s,t) => Pred(s,t+1)                               *)
(*   PredAtS      : Pred(s,s)            (a threshold exists, <= s)        *)
(*   NotPredBelow0: ~Pred(s,-1) for s>=1 (the threshold is >= 0)           *)
(* Hence the least t with Pred(s,t) exists in 0..s and is the only t with  *)
(* Pred(s,t) /\ ~Pred(s,t-1).                                              *)
(***************************************************************************)
EXTENDS Integers, TLAPS

Pred(s, t) == LET d == 99 * s - 100 * t IN d <= 0 \/ (d <= 40000 /\ d * d <= 891 * s)

THEOREM PredMonotone == \A s \in Nat : \A t \in Int : Pred(s, t) => Pred(s, t + 1)
<1> SUFFICES ASSUME NEW s \in Nat, NEW t \in Int, Pred(s, t) PROVE Pred(s, t + 1)
    OBVIOUS
<1> DEFINE d == 99 * s - 100 * t
<1> DEFINE e == 99 * s - 100 * (t + 1)
<1>1. e = d - 100
    OBVIOUS
<1>2. d \in Int /\ e \in Int
    OBVIOUS
<1>3. CASE d <= 0
    <2>1. e <= 0 BY <1>1, <1>3
    <2> QED BY <2>1 DEF Pred
<1>4. CASE d > 0
    <2>1. d <= 40000 /\ d * d <= 891 * s BY <1>4 DEF Pred
    <2>2. CASE e <= 0
          BY <2>2 DEF Pred
    <2>3. CASE e > 0
          <3>1. e < d /\ e <= 40000 BY <1>1, <2>1
          <3>2. e * e <= d * d BY <3>1, <2>3, <1>2, <1>4
          <3>3. e * e <= 891 * s BY <3>2, <2>1
          <3> QED BY <3>1, <3>3 DEF Pred
    <2> QED BY <2>2, <2>3, <1>2
<1> QED BY <1>3, <1>4, <1>2

THEOREM PredAtS == \A s \in Nat : Pred(s, s)
  BY DEF Pred

THEOREM NotPredBelow0 == \A s \in Nat : s >= 1 => ~Pred(s, -1)
<1> SUFFICES ASSUME NEW s \in Nat, s >= 1 PROVE ~Pred(s, -1)
    OBVIOUS
<1> DEFINE d == 99 * s - 100 * (-1)
<1>1. d = 99 * s + 100 /\ d > 0
    OBVIOUS
<1>2. d * d >= d * 99
    BY <1>1
<1>3. d * 99 > 891 * s
    BY <1>1
<1>4. d * d > 891 * s
    BY <1>2, <1>3
<1> QED BY <1>1, <1>4 DEF Pred
=============================================================================
