------------------------------- MODULE RealFn -------------------------------
(***************************************************************************)
(* Real-number layer.  TLA+ has no reals that TLC can evaluate, so the     *)
(* specification carries reals as decimal strings and TLC evaluates the    *)
(* operators below through the Java module override RealFn.class           *)
(* (BigDecimal, 60 working digits).  The TLA+ bodies are placeholders; the *)
(* meaning of each operator is fixed by the axioms in RealFnAxioms.tla,    *)
(* which TLC checks on a grid at setup.                                    *)
(*                                                                         *)
(* Trusted base of every numeric verdict: this override.                   *)
(***************************************************************************)
LOCAL INSTANCE Integers

RAdd(a, b)   == CHOOSE s \in STRING : TRUE    \* a + b
RSub(a, b)   == CHOOSE s \in STRING : TRUE    \* a - b
RMul(a, b)   == CHOOSE s \in STRING : TRUE    \* a * b
RDiv(a, b)   == CHOOSE s \in STRING : TRUE    \* a / b
RNeg(a)      == CHOOSE s \in STRING : TRUE    \* -a
RAbs(a)      == CHOOSE s \in STRING : TRUE    \* |a|
RSqrt(a)     == CHOOSE s \in STRING : TRUE    \* sqrt a
RExp(a)      == CHOOSE s \in STRING : TRUE    \* e^a
RLn(a)       == CHOOSE s \in STRING : TRUE    \* ln a
RLog2(a)     == CHOOSE s \in STRING : TRUE    \* log2 a
RErfc(a)     == CHOOSE s \in STRING : TRUE    \* erfc a
RPhi(a)      == CHOOSE s \in STRING : TRUE    \* standard normal CDF
RIgamcHalf(twoA, x) == CHOOSE s \in STRING : TRUE  \* Q(twoA/2, x), upper regularized incomplete gamma
RPowInt(a, k) == CHOOSE s \in STRING : TRUE   \* a^k, k an integer
RInt(a)      == CHOOSE s \in STRING : TRUE    \* integer (or numeral) -> real
RLeq(a, b)   == CHOOSE s \in BOOLEAN : TRUE   \* a <= b
RLt(a, b)    == CHOOSE s \in BOOLEAN : TRUE   \* a < b
REq(a, b)    == CHOOSE s \in BOOLEAN : TRUE   \* a = b (numerically)
RMin(a, b)   == CHOOSE s \in STRING : TRUE
RMax(a, b)   == CHOOSE s \in STRING : TRUE
RClose(a, b, tol) == CHOOSE s \in BOOLEAN : TRUE  \* |a - b| <= tol
RIsNum(a)    == CHOOSE s \in BOOLEAN : TRUE   \* total: is this a finite number? ("NaN", "+Inf", records ... -> FALSE)
RFloor(a)    == CHOOSE s \in Int : TRUE
RCeil(a)     == CHOOSE s \in Int : TRUE
RMulMod(a, b, n) == CHOOSE s \in Int : TRUE   \* (a * b) % n without 32-bit overflow
RCosTurn(k, n) == CHOOSE s \in STRING : TRUE  \* cos(2 pi k / n)
RSinTurn(k, n) == CHOOSE s \in STRING : TRUE  \* sin(2 pi k / n)
RLongestRunLeq(m, r)   == CHOOSE s \in STRING : TRUE  \* P(longest run of ones in random m-bit block <= r)
RLongestRunCount(m, r) == CHOOSE s \in STRING : TRUE  \* #{m-bit words with longest run of ones <= r}, exact numeral
RFixed(a, k) == CHOOSE s \in STRING : TRUE    \* decimal rendering with k fractional digits

(* derived, pure TLA+ *)
RGeq(a, b) == RLeq(b, a)
RGt(a, b)  == RLt(b, a)
RHalf(a)   == RDiv(a, 2)
RSq(a)     == RMul(a, a)
RInUnit(a, slack) == RLeq(RNeg(slack), a) /\ RLeq(a, RAdd(1, slack))
=============================================================================
