------------------------------ MODULE TraceGen ------------------------------
(***************************************************************************)
(* Channel T for C20: one event per run of the real rdgen binary in a      *)
(* scratch working directory:                                              *)
(*  {"ev":"gen","s","n","dir" (requested directory, relative to the cwd;   *)
(*   "target/data" when -o is absent),"code","hang",                       *)
(*   "created":[{"dir","name","size","sha"}]  files that did not exist or  *)
(*   changed, anywhere under the cwd,                                      *)
(*   "det_s","det_bits"  what rddetector reports for the directory (-1 if  *)
(*   not run)}                                                             *)
(***************************************************************************)
EXTENDS Integers, Sequences, FiniteSets, TLC, Json
Trace == ndJsonDeserialize("trace.ndjson")
VARIABLE l
\* decimal rendering of a small natural
Digit(d) == <<"0", "1", "2", "3", "4", "5", "6", "7", "8", "9">>[d + 1]
RECURSIVE Dec(_)
Dec(i) == IF i < 10 THEN Digit(i) ELSE Dec(i \div 10) \o Digit(i % 10)
NameOf(i) == "random" \o Dec(i) \o ".bin"
EventOK(e) ==
   /\ e.hang = FALSE /\ e.code = 0
   /\ Len(e.created) = e.s                                                  \* exactly s files ...
   /\ \A i \in 1..Len(e.created) : e.created[i].dir = e.dir                 \* ... inside the requested directory, nowhere else
   /\ {e.created[i].name : i \in 1..Len(e.created)} = {NameOf(i) : i \in 0..(e.s - 1)}
   /\ \A i \in 1..Len(e.created) : e.created[i].size = e.n \div 8
   /\ (e.n >= 128 => \A i, j \in 1..Len(e.created) : i # j => e.created[i].sha # e.created[j].sha)   \* pairwise different contents
   /\ (e.det_s >= 0 => e.det_s = e.s /\ e.det_bits = e.n)                    \* accepted by the batch detector as s samples of n bits
Init == l = 1
Step == /\ l <= Len(Trace) /\ Trace[l].ev = "gen" /\ EventOK(Trace[l]) /\ l' = l + 1
Spec == Init /\ [][Step]_l
Accepted == TLCGet("stats").diameter - 1 = Len(Trace)
=============================================================================
