------------------------------- MODULE BitSeq -------------------------------
(***************************************************************************)
(* Binary sequences as the specification sees them: TLA+ sequences over    *)
(* {0,1}; bytes expand most-significant-bit first (utils.go B2bit /        *)
(* B2bitArr / ReadGroup); blocks, cyclic windows, run-length view and the  *)
(* transformations used by the symmetry properties.                        *)
(***************************************************************************)
EXTENDS Integers, Sequences, FiniteSets, SequencesExt

Pow2(k) == 2 ^ k
\* TLC keeps [i \in S |-> e] as an unevaluated lambda and re-evaluates e on every application;
\* SubSeq builds an explicit tuple, evaluating every element exactly once.
Force(f) == SubSeq(f, 1, Len(f))
Bit == {0, 1}

\* byte (0..255) -> 8 bits, MSB first
ByteBits(b) == [i \in 1..8 |-> (b \div Pow2(8 - i)) % 2]
BytesToBits(bs) == [i \in 1..(8 * Len(bs)) |-> ByteBits(bs[((i - 1) \div 8) + 1])[((i - 1) % 8) + 1]]
\* inverse for whole bytes
BitsToBytes(x) == [j \in 1..(Len(x) \div 8) |->
      x[8*j-7] * 128 + x[8*j-6] * 64 + x[8*j-5] * 32 + x[8*j-4] * 16 + x[8*j-3] * 8 + x[8*j-2] * 4 + x[8*j-1] * 2 + x[8*j]]

Ones(x) == Cardinality({i \in 1..Len(x) : x[i] = 1})
\* i-th block of length m (1-based), trailing partial block is never addressed
Block(x, m, i) == [j \in 1..m |-> x[(i - 1) * m + j]]
NBlocks(x, m) == Len(x) \div m
\* value of the m bits starting at position i (1-based), MSB first, without wrap
RECURSIVE PatFrom(_, _, _, _)
PatFrom(x, i, m, acc) == IF m = 0 THEN acc ELSE PatFrom(x, i + 1, m - 1, 2 * acc + x[i])
Pat(x, i, m) == PatFrom(x, i, m, 0)
\* cyclic window: bits x[i], x[i+1], ... taken modulo the length
RECURSIVE CycPatFrom(_, _, _, _)
CycPatFrom(x, i, m, acc) == IF m = 0 THEN acc ELSE CycPatFrom(x, (i % Len(x)) + 1, m - 1, 2 * acc + x[i])
CycPat(x, i, m) == CycPatFrom(x, i, m, 0)

\* histogram of a sequence of values in 0..(size-1), by an iterative left fold
HistOfSeq(vals, size) == FoldLeft(LAMBDA h, p : [h EXCEPT ![p] = @ + 1], [p \in 0..(size - 1) |-> 0], vals)
\* sum of the squares of a function over 0..(size-1) (integers; callers guarantee < 2^31)
RECURSIVE SumSqUpTo(_, _)
SumSqUpTo(h, b) == IF b < 0 THEN 0 ELSE h[b] * h[b] + SumSqUpTo(h, b - 1)
RECURSIVE SumSeq(_)
SumSeq(q) == IF q = <<>> THEN 0 ELSE Head(q) + SumSeq(Tail(q))
SumFn(f, lo, hi) == FoldLeft(LAMBDA a, i : a + f[i], 0, [j \in 1..(hi - lo + 1) |-> lo + j - 1])

\* run-length view: sequence of <<bit, length>>
RLE(x) == IF x = <<>> THEN <<>> ELSE
   FoldLeft(LAMBDA acc, i : IF x[i] = acc[Len(acc)][1]
                               THEN [acc EXCEPT ![Len(acc)] = <<@[1], @[2] + 1>>]
                               ELSE Append(acc, <<x[i], 1>>),
            << <<x[1], 1>> >>, [j \in 1..(Len(x) - 1) |-> j + 1])

(* transformations *)
Complement(x) == [i \in 1..Len(x) |-> 1 - x[i]]
Rev(x) == [i \in 1..Len(x) |-> x[Len(x) + 1 - i]]
Rotate(x, r) == [i \in 1..Len(x) |-> x[((i - 1 + r) % Len(x)) + 1]]
\* permute whole m-bit blocks by perm (a sequence that is a permutation of 1..NBlocks); tail kept
PermuteBlocks(x, m, perm) == [i \in 1..Len(x) |->
      IF i > NBlocks(x, m) * m THEN x[i]
      ELSE x[(perm[((i - 1) \div m) + 1] - 1) * m + ((i - 1) % m) + 1]]
\* replace the discarded tail (after the last whole m-block) by the bits of t
ReplaceTail(x, m, t) == [i \in 1..Len(x) |-> IF i > NBlocks(x, m) * m THEN t[i - NBlocks(x, m) * m] ELSE x[i]]
Derivative(x) == [i \in 1..(Len(x) - 1) |-> (x[i] + x[i + 1]) % 2]
RECURSIVE DerivativeK(_, _)
DerivativeK(x, k) == IF k = 0 THEN x ELSE DerivativeK(Derivative(x), k - 1)
=============================================================================
