------------------------------ MODULE Workflow ------------------------------
(***************************************************************************)
(* The sequential detection workflows of detect/detect.go (FactoryDetect / *)
(* PowerOnDetect / PeriodDetect) and the read phase of SingleDetect, at    *)
(* chunk granularity: io.ReadFull is a loop of source.Read calls, each of  *)
(* which may return any count 1..requested; the source may fail at any     *)
(* stream position, with or without delivering the bytes before it.        *)
(***************************************************************************)
EXTENDS Integers, Sequences, FiniteSets, TLC

CONSTANTS S,        \* samples (50 / 20 / 20; 1 for SingleDetect)
          C,        \* chunks per sample
          FailAt,   \* stream position at which the source fails; 99 = never
          ErrWithData  \* TRUE: the failing Read returns the chunks before FailAt together with the error

None == 99
VARIABLES pc,       \* "read" | "round" | "decide" | "returned"
          i,        \* sample index
          buf, filled, pos, judged, verdict, err, failed, reads

vars == <<pc, i, buf, filled, pos, judged, verdict, err, failed, reads>>
Sample(k) == [c \in 1..C |-> k * C + c - 1]

Init == /\ pc = "read" /\ i = 0 /\ buf = [c \in 1..C |-> -1] /\ filled = 0 /\ pos = 0
        /\ judged = <<>> /\ verdict = None /\ err = FALSE /\ failed = FALSE /\ reads = 0

\* one source.Read call inside io.ReadFull(source, buf)
ReadOK == /\ pc = "read" /\ pos < FailAt
          /\ \E k \in 1..(C - filled) :
               /\ pos + k <= FailAt
               /\ buf' = [c \in 1..C |-> IF c > filled /\ c <= filled + k THEN pos + (c - filled) - 1 ELSE buf[c]]
               /\ pos' = pos + k /\ filled' = filled + k
               \* ErrWithData: the Read that delivers the last chunks before FailAt also carries the error;
               \* io.ReadFull ignores it iff the buffer became full
               /\ IF ErrWithData /\ pos + k = FailAt /\ filled + k < C
                    THEN pc' = "returned" /\ verdict' = FALSE /\ err' = TRUE /\ failed' = TRUE
                    ELSE /\ pc' = IF filled + k = C THEN "round" ELSE "read"
                         /\ UNCHANGED <<verdict, err, failed>>
          /\ reads' = reads + 1
          /\ UNCHANGED <<i, judged>>
ReadFail == /\ pc = "read" /\ pos >= FailAt
            /\ pc' = "returned" /\ verdict' = FALSE /\ err' = TRUE /\ failed' = TRUE
            /\ reads' = reads + 1
            /\ UNCHANGED <<i, buf, filled, pos, judged>>
Round == /\ pc = "round"
         /\ judged' = Append(judged, buf)
         /\ i' = i + 1 /\ filled' = 0
         /\ pc' = IF i + 1 = S THEN "decide" ELSE "read"
         /\ UNCHANGED <<buf, pos, verdict, err, failed, reads>>
Decide == /\ pc = "decide"
          /\ verdict' = (\A k \in 1..S : judged[k] = Sample(k - 1))
          /\ err' = ~verdict'
          /\ pc' = "returned"
          /\ UNCHANGED <<i, buf, filled, pos, judged, failed, reads>>
Next == ReadOK \/ ReadFail \/ Round \/ Decide
Spec == Init /\ [][Next]_vars /\ WF_vars(Next)

FreshConsecutive == \A k \in 1..Len(judged) : judged[k] = Sample(k - 1)
ExactConsumption == (pc = "returned" /\ ~failed) => pos = S * C /\ Len(judged) = S
NeverReadsBeyond == pos <= S * C
FaultMeansFalse == (pc = "returned" /\ failed) => (verdict = FALSE /\ err = TRUE)
NoFaultNoErr == (pc = "returned" /\ ~failed) => (verdict = TRUE /\ err = FALSE)
\* a fault at or beyond the last required chunk is not a failure (everything needed was delivered)
LateFaultHarmless == (pc = "returned" /\ FailAt >= S * C) => ~failed
FaultInsideFails == (pc = "returned" /\ FailAt < S * C) => failed
Terminates == <>(pc = "returned")
=============================================================================
