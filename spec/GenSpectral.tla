---------------------------- MODULE GenSpectral ----------------------------
(***************************************************************************)
(* Model + generator for C05 (DFT test) and C19 (fft package).             *)
(*  Family "dft1"  : every bit sequence with MinN <= n <= MaxN             *)
(*  Family "dft2"  : generator descriptors (Sizes x Modes x Seeds)         *)
(*  Family "lift"  : periodic words lifted to n = 2^e by the lifting lemma *)
(*  Family "fft"   : the FFT as written vs the DFT definition on the       *)
(*                   impulse basis of size FftN (invariants), emitting     *)
(*                   exact spectra of small integer-valued inputs          *)
(***************************************************************************)
EXTENDS Integers, Sequences, FiniteSets, TLC, Json, Spectral

CONSTANTS Family, MinN, MaxN, Stride, Sizes, Modes, Seeds,
          FftN, FftLog, Variant, LiftN

VARIABLE k
M0 == 46337
Mix(a) == ((a % M0) * (a % M0) + 12345) % M0
H(seed, i) == Mix(Mix(Mix((i % M0) * 7919 + seed * 104 + 17) + (i \div M0)) + seed)
HBit(seed, i) == (H(seed, i) \div 8) % 2
Total1 == Pow2(MaxN + 1) - Pow2(MinN)
SeqAt(j) == LET n == CHOOSE n \in MinN..MaxN : Pow2(n) - Pow2(MinN) <= j /\ j < Pow2(n + 1) - Pow2(MinN)
                v == j - (Pow2(n) - Pow2(MinN))
            IN [i \in 1..n |-> (v \div Pow2(n - i)) % 2]
GenBit(mode, n, seed, i) ==
   CASE mode = "uni"    -> HBit(seed, i)
     [] mode = "const0" -> 0
     [] mode = "const1" -> 1
     [] mode = "alt"    -> i % 2
     [] mode = "per3"   -> IF i % 3 = 0 THEN 1 ELSE 0
     [] mode = "per8"   -> HBit(seed, i % 8)
     [] mode = "per16n" -> IF H(seed + 1, i) % 53 = 0 THEN HBit(seed, i) ELSE HBit(seed, i % 16)
     [] mode = "bias25" -> IF (H(seed, i) \div 8) % 4 = 0 THEN 1 ELSE 0
     [] OTHER -> 0
Descs == [j \in 1..(Len(Sizes) * Len(Modes) * Len(Seeds)) |->
            LET a == (j - 1) % Len(Sizes)  b == ((j - 1) \div Len(Sizes)) % Len(Modes)  c == (j - 1) \div (Len(Sizes) * Len(Modes))
            IN [n |-> Sizes[a + 1], mode |-> Modes[b + 1], seed |-> Seeds[c + 1]]]
\* lifting descriptors: word length p in {2,4,8,16,32}, word from seed
LiftDescs == [j \in 1..(5 * Len(Seeds)) |-> [p |-> Pow2(1 + ((j - 1) % 5)), seed |-> Seeds[((j - 1) \div 5) + 1]]]
LiftWord(d) == Force([i \in 1..d.p |-> IF d.seed % 7 = 0 THEN i % 2 ELSE HBit(d.seed, i)])

Total == CASE Family = "dft1" -> Total1 [] Family = "dft2" -> Len(Descs) [] Family = "lift" -> Len(LiftDescs) [] Family = "fft" -> FftN

DftCall(x) == LET n == Len(x)  c == DftCounts(x) IN
   [t |-> "dft", N1 |-> c.lo, amb |-> c.amb,
    alts |-> [a \in 1..(c.amb + 1) |-> DftPQ(n, c.lo + a - 1)]] @@ DftPQ(n, c.lo)
LiftCall(w, n) == [t |-> "dft", N1 |-> LiftedN1(w, n), amb |-> 0, alts |-> << DftPQ(n, LiftedN1(w, n)) >>] @@ DftPQ(n, LiftedN1(w, n))

\* exact spectrum of an integer-valued input as decimal re/im pairs (zeta = exp(-2 pi i / N))
ElemRe(N, e, ct) == FoldLeft(LAMBDA a, j : RAdd(a, RMul(e[j], ct[j + 1])), "0", [t \in 1..(N \div 2) |-> t - 1])
ElemIm(N, e, st) == FoldLeft(LAMBDA a, j : RSub(a, RMul(e[j], st[j + 1])), "0", [t \in 1..(N \div 2) |-> t - 1])
IntInput(N, seed, j) == IF seed = 0 THEN (IF j = 0 THEN 1 ELSE 0) ELSE (H(seed, j) % 7) - 3
FftVector(N, LOGN, seed) ==
   LET xin == [i \in 0..(N - 1) |-> IntInput(N, seed, i)]
       X == AlgFFT(N, LOGN, [i \in 0..(N - 1) |-> FromInt(N, xin[i])] @@ <<>>)
       ct == CosTab(N)  st == SinTab(N)
   IN [ev |-> "fftvec", N |-> N, x |-> [i \in 1..N |-> xin[i - 1]],
       re |-> [kk \in 1..N |-> ElemRe(N, X[kk - 1], ct)], im |-> [kk \in 1..N |-> ElemIm(N, X[kk - 1], st)]]

Vector(j) ==
   CASE Family = "dft1" -> LET x == Force(SeqAt(j)) IN [ev |-> "vec", family |-> Family, label |-> [n |-> Len(x), mode |-> "all", seed |-> j], bits |-> x, calls |-> << DftCall(x) >>]
     [] Family = "dft2" -> LET d == Descs[j + 1]  x == Force([i \in 1..d.n |-> GenBit(d.mode, d.n, d.seed, i)]) IN
                           [ev |-> "vec", family |-> Family, label |-> d, bits |-> x, calls |-> << DftCall(x) >>]
     [] Family = "lift" -> LET d == LiftDescs[j + 1]  w == LiftWord(d) IN
                           IF LiftedClear(w, LiftN)
                           THEN [ev |-> "vec", family |-> Family, label |-> [n |-> LiftN, mode |-> "lift", seed |-> d.seed, p |-> d.p],
                                 word |-> w, repeat |-> LiftN, bits |-> <<>>, calls |-> << LiftCall(w, LiftN) >>]
                           ELSE [ev |-> "skip"]
     [] Family = "fft"  -> FftVector(FftN, FftLog, j)       \* j = 0: impulse at 0; j >= 1: pseudo-random integer inputs

\* the lifting lemma itself, checked where the full definition is affordable
LiftLemma == Family = "lift" /\ k >= 0 /\ k < Total =>
   LET d == LiftDescs[k + 1]  w == LiftWord(d) IN
   \A n \in {64, 128} : n >= 2 * d.p /\ LiftedClear(w, n) =>
      LET x == Force([i \in 1..n |-> w[((i - 1) % d.p) + 1]])  c == DftCounts(x) IN c.amb = 0 /\ c.lo = LiftedN1(w, n)

\* C19 on the model: the FFT as written computes the DFT, and Inverse inverts it, on the impulse basis (=> on every input, by linearity)
FFTisDFT == Family = "fft" /\ k >= 0 /\ k < FftN =>
   LET e == Impulse(FftN, k) IN
   /\ AlgFFTv(FftN, FftLog, e, Variant) = ImpulseSpectrum(FftN, k)
   /\ (FftN <= 32 => AlgFFTv(FftN, FftLog, e, Variant) = DefDFT(FftN, e))
InverseOK == Family = "fft" /\ k >= 0 /\ k < FftN =>
   LET e == Impulse(FftN, k) IN
   AlgInvTimesN(FftN, FftLog, AlgFFT(FftN, FftLog, e)) = [i \in 0..(FftN - 1) |-> ScaleE(FftN, FftN, e[i])] @@ <<>>
PermInvolution == Family = "fft" => LET p == Perm(FftN, FftLog) IN \A i \in 0..(FftN - 1) : p[p[i]] = i

Init == k \in {-1 - s : s \in 0..(Stride - 1)}
Next == LET j == IF k < 0 THEN -1 - k ELSE k + Stride IN
        /\ j < Total
        /\ k' = j
        /\ PrintT(ToJson(Vector(j)))
Spec == Init /\ [][Next]_k

ASSUME \A n \in 1..5000 : CeilPow2(n) >= n /\ CeilPow2(n) >= 2 /\ (CeilPow2(n) = 2 \/ CeilPow2(n) < 2 * n) /\ \E e \in 1..13 : CeilPow2(n) = Pow2(e)
ASSUME \A N \in 2..5000 : LET r == LastPow2(N) IN ~r.err /\ r.n = LargestPow2Leq(N) /\ Pow2(r.p) = r.n
ASSUME LastPow2(1).err /\ LastPow2(0).err /\ LastPow2(-2).err /\ LastPow2(134217729).err /\ ~LastPow2(134217728).err
ASSUME \A e \in 1..27 : LastPow2(Pow2(e)).n = Pow2(e) /\ LastPow2(Pow2(e) + 1).n = (IF e < 27 THEN Pow2(e) ELSE 0) /\ (e > 1 => LastPow2(Pow2(e) - 1).n = Pow2(e - 1))
=============================================================================
