------------------------------- MODULE Single -------------------------------
(***************************************************************************)
(* C11: single-shot detection (detect.SingleDetect).  Reads exactly        *)
(* numByte bytes; fewer than 16 bytes is an error; otherwise the poker     *)
(* test with m = 2 below 320 bits, m = 4 from 320 bits, m = 8 from 10240   *)
(* bits decides: true iff P >= 0.01.                                       *)
(***************************************************************************)
EXTENDS Integers, Sequences, FiniteSets, TLC, Json, SequencesExt, FreqTests

SelectPokerM(numByte) == IF 8 * numByte < 320 THEN 2 ELSE IF numByte >= 1280 THEN 8 ELSE 4
TooShort(numByte) == numByte < 16
Alpha == "0.01"
\* the statement's rationale: n/m >= 5 * 2^m for the chosen m, and the next larger m would violate it
MRuleOK(nb) == nb >= 16 =>
   LET n == 8 * nb  m == SelectPokerM(nb) IN
   /\ (n >= 10240 <=> m = 8) /\ (n >= 320 /\ n < 10240 <=> m = 4) /\ (n < 320 <=> m = 2)
   /\ (m > 2 => n \div m >= 5 * Pow2(m))
   /\ (m = 2 => n \div 4 < 5 * 16) /\ (m = 4 => n \div 8 < 5 * 256)
\* decision from the content
SingleVerdict(bytes) == LET nb == Len(bytes) IN
   IF TooShort(nb) THEN [verdict |-> FALSE, err |-> TRUE, m |-> 0, P |-> "0"]
   ELSE LET m == SelectPokerM(nb)  p == PokerResult(BytesToBits(bytes), m).P IN
        [verdict |-> RGeq(p, Alpha), err |-> FALSE, m |-> m, P |-> p]
\* decision from pattern histograms (sequences, pattern p at index p+1)
SingleVerdictFromHist(nb, h2, h4, h8) ==
   IF TooShort(nb) THEN [verdict |-> FALSE, err |-> TRUE, m |-> 0, P |-> "0"]
   ELSE LET m == SelectPokerM(nb)  h == IF m = 2 THEN h2 ELSE IF m = 4 THEN h4 ELSE h8
            N == (8 * nb) \div m
            p == PokerPQ(N, m, FoldLeft(LAMBDA a, c : RAdd(a, RMul(c, c)), "0", h)).P
        IN [verdict |-> RGeq(p, Alpha), err |-> FALSE, m |-> m, P |-> p]
=============================================================================
