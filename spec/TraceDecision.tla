--------------------------- MODULE TraceDecision ---------------------------
(***************************************************************************)
(* Channel T for C12: validates events recorded from the real              *)
(* detect.Threshold / detect.ThresholdQ against Decision.tla.              *)
(*   {"ev":"threshold","s0":S,"ts":[t(S), t(S+1), ...]}                    *)
(*   {"ev":"thresholdq","qs":[decimal strings],"v":"decimal","perm":[..]}  *)
(* TLC is the judge: an event that does not satisfy the spec predicate     *)
(* stops the trace, and the orchestrator reports the first unmatched line. *)
(***************************************************************************)
EXTENDS Integers, Sequences, TLC, Json, Decision

Trace == ndJsonDeserialize("trace.ndjson")
VARIABLE l

ThresholdEvent(e) ==
   /\ e.s0 \in 1..1000000
   /\ \A i \in 1..Len(e.ts) : IsThreshold(e.s0 + i - 1, e.ts[i])

ThresholdQEvent(e) ==
   /\ e.panic = FALSE
   /\ Len(e.qs) >= 1
   /\ \A i \in 1..Len(e.qs) : RIsNum(e.qs[i]) /\ RInUnit(e.qs[i], "0")
   /\ RIsNum(e.v)
   /\ RClose(e.v, ThresholdQ(e.qs), "1.1e-12")
   /\ \A j \in 1..Len(e.pv) : e.pv[j] = e.vbits      \* bit-identical under every logged permutation

Init == l = 1
Step == /\ l <= Len(Trace)
        /\ LET e == Trace[l] IN
             CASE e.ev = "threshold"  -> ThresholdEvent(e)
               [] e.ev = "thresholdq" -> ThresholdQEvent(e)
               [] OTHER -> FALSE
        /\ l' = l + 1
Spec == Init /\ [][Step]_l
Accepted == TLCGet("stats").diameter - 1 = Len(Trace)
=============================================================================
