------------------------------ MODULE Symmetry ------------------------------
(***************************************************************************)
(* C17: transformations of the sequence that a statistic cannot see.       *)
(* Table:  Relation(test, transformation)  in                              *)
(*   "same"   P and Q unchanged                                            *)
(*   "qflip"  P unchanged, Q becomes 1 - Q          (monobit / complement) *)
(*   "swap"   result equals the partner variant on the original sequence:  *)
(*            longest run of ones <-> zeros (complement), cumulative sums  *)
(*            forward <-> backward (reverse)                               *)
(*   "none"   nothing is claimed                                           *)
(* The table is not assumed: SymmetryHolds checks every entry against the  *)
(* Def operators on every enumerated sequence (integer summaries).         *)
(***************************************************************************)
EXTENDS Integers, Sequences, FiniteSets, TLC, Json, SequencesExt, FreqTests, RunTests, CorrTests, AlgTests, SymmetryTable

CONSTANTS MinN, MaxN, Stride
VARIABLE k
Total1 == Pow2(MaxN + 1) - Pow2(MinN)
SeqAt(j) == LET n == CHOOSE n \in MinN..MaxN : Pow2(n) - Pow2(MinN) <= j /\ j < Pow2(n + 1) - Pow2(MinN)
                v == j - (Pow2(n) - Pow2(MinN))
            IN [i \in 1..n |-> (v \div Pow2(n - i)) % 2]

SortedCounts(h, size) == SortSeq([i \in 1..size |-> h[i - 1]], <)
\* a block permutation and a tail derived from the sequence itself
PermFor(N, x) == [i \in 1..N |-> ((i - 1 + 1 + (Ones(x) % N)) % N) + 1]          \* rotation of the blocks by 1 + ones mod N
TailFor(len, x) == [i \in 1..len |-> 1 - x[i]]

ComplementOK(x) == LET c == Force(Complement(x))  n == Len(x) IN
   /\ DefMonoS(c) = -DefMonoS(x)
   /\ \A m \in {2, 3, 5} : DefBlockDev(c, m) = DefBlockDev(x, m)
   /\ \A m \in {2, 4, 8} : SumSq(DefPokerHist(c, m), Pow2(m)) = SumSq(DefPokerHist(x, m), Pow2(m))
   /\ \A m \in {0, 1, 2, 3, 5} : SumSq(DefCycHist(c, m), Pow2(m)) = SumSq(DefCycHist(x, m), Pow2(m))
   /\ \A m \in {2, 3} : SortedCounts(DefCycHist(c, m), Pow2(m)) = SortedCounts(DefCycHist(x, m), Pow2(m))
   /\ DefRuns(c).vobs = DefRuns(x).vobs /\ DefRuns(c).ones = n - DefRuns(x).ones
   /\ \A kk \in {3, 7} : DefBD(c, kk) = DefBD(x, kk)
   /\ \A d \in {1, 2} : DefAC(c, d) = DefAC(x, d)
   /\ DefCusumZ(c, TRUE) = DefCusumZ(x, TRUE) /\ DefCusumZ(c, FALSE) = DefCusumZ(x, FALSE)
   /\ \A i \in 1..(n \div 4) : LongestOf(Block(c, 4, i), 0) = LongestOf(Block(x, 4, i), 1)   \* longest run of zeros of the complement = of ones
   /\ RLE(c) = [j \in 1..Len(RLE(x)) |-> <<1 - RLE(x)[j][1], RLE(x)[j][2]>>]                  \* runs distribution: b and g exchange
ReverseOK(x) == LET r == Force(Rev(x)) IN
   /\ DefMonoS(r) = DefMonoS(x) /\ DefRuns(r) = DefRuns(x)
   /\ \A kk \in {3, 7} : DefBD(r, kk) = DefBD(x, kk)
   /\ \A d \in {1, 2} : DefAC(r, d) = DefAC(x, d)
   /\ \A m \in {0, 1, 2, 3, 5} : SumSq(DefCycHist(r, m), Pow2(m)) = SumSq(DefCycHist(x, m), Pow2(m))
   /\ \A m \in {2, 3} : SortedCounts(DefCycHist(r, m), Pow2(m)) = SortedCounts(DefCycHist(x, m), Pow2(m))
   /\ DefCusumZ(r, TRUE) = DefCusumZ(x, FALSE) /\ DefCusumZ(r, FALSE) = DefCusumZ(x, TRUE)
   /\ RLE(r) = Rev(RLE(x))                                                                    \* same multiset of runs per symbol
RotateOK(x) == \A rot \in 0..(Len(x) - 1) : LET y == Force(Rotate(x, rot)) IN
   \A m \in {1, 2, 3, 5} : DefCycHist(y, m) = DefCycHist(x, m)
BlockOK(x) == \A m \in {2, 3, 4} :
   LET N == NBlocks(x, m)  y == Force(PermuteBlocks(x, m, PermFor(N, x)))  z == Force(ReplaceTail(x, m, TailFor(Len(x) - N * m, SubSeq(x, N * m + 1, Len(x))))) IN
   /\ DefBlockDev(y, m) = DefBlockDev(x, m) /\ DefBlockDev(z, m) = DefBlockDev(x, m)
   /\ DefPokerHist(y, m) = DefPokerHist(x, m) /\ DefPokerHist(z, m) = DefPokerHist(x, m)
   /\ SortSeq(DefLs(y, m), <) = SortSeq(DefLs(x, m), <) /\ DefLs(z, m) = DefLs(x, m)
RankBlockOK(x) == LET N4 == NBlocks(x, 4)
                      y4 == Force(PermuteBlocks(x, 4, PermFor(N4, x)))
                      z4 == Force(ReplaceTail(x, 4, TailFor(Len(x) - N4 * 4, SubSeq(x, N4 * 4 + 1, Len(x))))) IN
   SortSeq(DefRanks(y4, 2), <) = SortSeq(DefRanks(x, 2), <) /\ DefRanks(z4, 2) = DefRanks(x, 2)
InvC == k >= 0 /\ k < Total1 => ComplementOK(Force(SeqAt(k)))
InvR == k >= 0 /\ k < Total1 => ReverseOK(Force(SeqAt(k)))
InvRot == k >= 0 /\ k < Total1 => RotateOK(Force(SeqAt(k)))
InvB == k >= 0 /\ k < Total1 => BlockOK(Force(SeqAt(k))) /\ RankBlockOK(Force(SeqAt(k)))
SymmetryHolds == k >= 0 /\ k < Total1 => LET x == Force(SeqAt(k)) IN ComplementOK(x) /\ ReverseOK(x) /\ RotateOK(x) /\ BlockOK(x) /\ RankBlockOK(x)

Init == k \in {-1 - s : s \in 0..(Stride - 1)}
Next == LET j == IF k < 0 THEN -1 - k ELSE k + Stride IN
        /\ j < Total1
        /\ k' = j
        /\ (j = 0 => PrintT(ToJson([ev |-> "table", rows |-> Table])))
Spec == Init /\ [][Next]_k
=============================================================================
