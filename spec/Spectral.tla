------------------------------ MODULE Spectral ------------------------------
(***************************************************************************)
(* C05 / C19.                                                              *)
(* (a) The discrete Fourier transform test (GM/T 0005-2021 5.15): exact    *)
(*     definition of the spectrum of the +-1 sequence zero-extended to the *)
(*     next power of two, evaluated in the real layer; threshold count N1  *)
(*     over the first n/2-1 bins with an explicit "undecided" band for     *)
(*     magnitudes closer to the threshold than floating-point resolution.  *)
(* (b) The radix-2 FFT of fft/fft.go, transcribed loop by loop over the    *)
(*     cyclotomic integers Z[zeta_N] (exact arithmetic): permutationIndex, *)
(*     inputPermutation, the three nested butterfly loops with the index   *)
(*     expressions E[k*s], E[s*(k+l)], Inverse (index reversal + forward + *)
(*     1/N), lastPow2, ceilPow2.  Both AlgFFT and DefDFT are linear over Z *)
(*     by construction, so agreement on the N unit impulses is agreement   *)
(*     on every input.                                                     *)
(***************************************************************************)
EXTENDS Integers, Sequences, FiniteSets, SequencesExt, TLC, BitSeq, RealFn

(* ======================= (a) DFT test ======================= *)
RECURSIVE CeilPow2From(_, _)
CeilPow2From(n, i) == IF i >= n THEN i ELSE CeilPow2From(n, 2 * i)
CeilPow2(n) == CeilPow2From(n, 2)           \* utils.go ceilPow2: i = 2; while i < N: i <<= 1
\* tables of cos / sin (2 pi r / N), r = 0..N-1, at index r+1
CosTab(N) == Force([r \in 1..N |-> RCosTurn(r - 1, N)])
SinTab(N) == Force([r \in 1..N |-> RSinTurn(r - 1, N)])
\* |X_k|^2 of the +-1 sequence x zero-extended to N points
Mag2(x, N, k, ct, st) ==
   LET acc == FoldLeft(LAMBDA a, j : LET r == (((j - 1) * k) % N) + 1 IN
                                     IF x[j] = 1 THEN [re |-> RAdd(a.re, ct[r]), im |-> RAdd(a.im, st[r])]
                                     ELSE [re |-> RSub(a.re, ct[r]), im |-> RSub(a.im, st[r])],
                       [re |-> "0", im |-> "0"], [t \in 1..Len(x) |-> t])
   IN RAdd(RSq(acc.re), RSq(acc.im))
T2(n) == RMul("2.995732274", n)
\* classification of the bins 0 .. n/2-2 : below / above the threshold / undecided (relative 1e-9)
DftCounts(x) ==
   LET n == Len(x)  N == CeilPow2(n)  ct == CosTab(N)  st == SinTab(N)  t2 == T2(n)
       band == RMul(t2, "1e-9")
       cls(k) == LET m2 == Mag2(x, N, k, ct, st) IN
                 IF RLt(m2, RSub(t2, band)) THEN 0 ELSE IF RLt(RAdd(t2, band), m2) THEN 1 ELSE 2
       c == [k \in 1..(IF n \div 2 - 1 > 0 THEN n \div 2 - 1 ELSE 0) |-> cls(k - 1)]
   IN [lo |-> Cardinality({k \in DOMAIN c : c[k] = 0}), amb |-> Cardinality({k \in DOMAIN c : c[k] = 2})]
\* N0 = 0.95 n / 2 ; V = (N1 - N0) / sqrt(0.95 * 0.05 * n / 3.8) ; P = erfc(|V|/sqrt 2) ; Q = erfc(V/sqrt 2)/2
DftPQ(n, N1) == LET v == RDiv(RSub(N1, RDiv(RMul("0.95", n), 2)), RSqrt(RDiv(RMul(RMul("0.95", "0.05"), n), "3.8")))
                    w == RDiv(v, RSqrt(2))
                IN [P |-> RErfc(RAbs(w)), Q |-> RDiv(RErfc(w), 2)]
\* lifting lemma for n = N a power of two and x of period p | N:  X_N[k N/p] = (N/p) X_p[k], every other bin is 0.
\* N1 for the n-point sequence made of N/p repetitions of the p-bit word w:
LiftedN1(w, n) ==
   LET p == Len(w)  f == n \div p  ct == CosTab(p)  st == SinTab(p)  t2 == T2(n)
       big == {kk \in 0..(p - 1) : kk * f <= n \div 2 - 2 /\ ~RLt(RMul(RSq(f), Mag2(w, p, kk, ct, st)), t2)}
   IN (n \div 2 - 1) - Cardinality(big)
\* no lifted bin may sit in the undecided band (otherwise the descriptor is not emitted)
LiftedClear(w, n) ==
   LET p == Len(w)  f == n \div p  ct == CosTab(p)  st == SinTab(p)  t2 == T2(n) IN
   \A kk \in 0..(p - 1) : LET m2 == RMul(RSq(f), Mag2(w, p, kk, ct, st)) IN
        REq(m2, 0) \/ RLt(m2, RMul(t2, "0.999")) \/ RLt(RMul(t2, "1.001"), m2)

(* ======================= (b) the FFT as written, over Z[zeta_N] ======================= *)
\* an element sum_{k<H} c[k] zeta^k is a function 0..H-1 -> Int, zeta^H = -1, H = N/2
ZeroE(N) == [k \in 0..(N \div 2 - 1) |-> 0] @@ <<>>
AddE(N, a, b) == [k \in 0..(N \div 2 - 1) |-> a[k] + b[k]] @@ <<>>
ScaleE(N, c, a) == [k \in 0..(N \div 2 - 1) |-> c * a[k]] @@ <<>>
\* multiply by zeta^e
MulZ(N, a, e) == LET f == e % N  H == N \div 2 IN
                 [k \in 0..(H - 1) |-> LET j == (k - f) % N IN IF j < H THEN a[j] ELSE -a[j - H]] @@ <<>>
FromInt(N, c) == [k \in 0..(N \div 2 - 1) |-> IF k = 0 THEN c ELSE 0] @@ <<>>
\* definition  X[k] = sum_j x[j] zeta^(jk)
DefDFT(N, x) == [k \in 0..(N - 1) |-> FoldLeft(LAMBDA acc, j : AddE(N, acc, MulZ(N, x[j], (j * k) % N)), ZeroE(N), [t \in 1..N |-> t - 1])] @@ <<>>
\* permutationIndex(P): double in place, append +1
RECURSIVE PermBuild(_, _, _, _, _)
PermBuild(N, LOGN, idx, n, p) ==
   IF p = LOGN THEN idx
   ELSE LET dbl == [i \in 0..(N - 1) |-> IF i < n THEN 2 * idx[i] ELSE idx[i]] @@ <<>>
            nxt == [i \in 0..(N - 1) |-> IF i >= n /\ i < 2 * n THEN dbl[i - n] + 1 ELSE dbl[i]] @@ <<>>
        IN PermBuild(N, LOGN, nxt, 2 * n, p + 1)
Perm(N, LOGN) == PermBuild(N, LOGN, [i \in 0..(N - 1) |-> 0] @@ <<>>, 1, 0)
\* inputPermutation: for i in range p: if i < p[i] swap(x[i], x[p[i]])  (sequential swaps, as written)
InPerm(N, x, perm) == FoldLeft(LAMBDA y, i : IF i < perm[i] THEN [y EXCEPT ![i] = y[perm[i]], ![perm[i]] = y[i]] ELSE y, x, [t \in 1..N |-> t - 1])
\* butterfly(k, o, l, s): i = k+o, j = i+l ; x[i], x[j] = x[i] + E[k*s] x[j], x[i] + E[s*(k+l)] x[j]
\* `variant` selects the twiddle index expressions: "go" = as written; the others are deliberately wrong
\* (negative controls: TLC must report AlgFFT # DefDFT for them)
TwA(k, l, s, variant) == IF variant = "badA" THEN k * s + 1 ELSE k * s
TwB(k, l, s, variant) == IF variant = "badB" THEN s * (k + l) + s ELSE s * (k + l)
Stage(N, x, n, s, variant) ==
   FoldLeft(LAMBDA y, bk : LET b == bk \div n  k == bk % n  o == 2 * b * n  i == k + o  j == i + n IN
                           [y EXCEPT ![i] = AddE(N, y[i], MulZ(N, y[j], TwA(k, n, s, variant))),
                                     ![j] = AddE(N, y[i], MulZ(N, y[j], TwB(k, n, s, variant)))],
            x, [t \in 1..(s * n) |-> t - 1])
RECURSIVE Stages(_, _, _, _, _, _, _)
Stages(N, LOGN, x, n, s, p, variant) ==
   IF p > LOGN THEN x ELSE LET s2 == s \div 2 IN Stages(N, LOGN, Stage(N, x, n, s2, variant), 2 * n, s2, p + 1, variant)
AlgFFTv(N, LOGN, x, variant) == Stages(N, LOGN, InPerm(N, x, Perm(N, LOGN)), 1, N, 1, variant)
AlgFFT(N, LOGN, x) == AlgFFTv(N, LOGN, x, "go")
\* Inverse as written: swap x[i], x[N-i] for 1 <= i < N/2, forward transform, scale by 1/N (we compare N * result)
RevIdx(N, x) == [i \in 0..(N - 1) |-> IF i = 0 THEN x[0] ELSE x[N - i]] @@ <<>>
AlgInvTimesN(N, LOGN, x) == AlgFFT(N, LOGN, RevIdx(N, x))
Impulse(N, j) == [i \in 0..(N - 1) |-> FromInt(N, IF i = j THEN 1 ELSE 0)] @@ <<>>
\* closed form of the transform of an impulse at j:  X[k] = zeta^(jk)
ImpulseSpectrum(N, j) == [k \in 0..(N - 1) |-> MulZ(N, FromInt(N, 1), (j * k) % N)] @@ <<>>

\* lastPow2 of fft.go: error iff N < 2 or N > 2^27 ; else the largest power of two <= N
RECURSIVE LastPow2From(_, _, _)
LastPow2From(N, i, p) == IF 2 * i > N THEN [n |-> i, p |-> p] ELSE LastPow2From(N, 2 * i, p + 1)
LastPow2(N) == IF N < 2 \/ N > 134217728 THEN [err |-> TRUE, n |-> 0, p |-> 0] ELSE [err |-> FALSE] @@ LastPow2From(N, 2, 1)
LargestPow2Leq(N) == CHOOSE q \in {Pow2(e) : e \in 1..27} : q <= N /\ 2 * q > N
=============================================================================
