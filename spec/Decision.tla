------------------------------ MODULE Decision ------------------------------
(***************************************************************************)
(* GM/T 0005-2021 sec. 6 decision rule: pass-count threshold, sample       *)
(* uniformity (k = 10 bins), and the verdict of a detection workflow over  *)
(* an s x items matrix of per-sample results.                              *)
(* Binds to detect/detect.go Threshold, ThresholdQ and the decision loops. *)
(***************************************************************************)
EXTENDS Integers, Sequences, FiniteSets, RealFn

(* ---- threshold ------------------------------------------------------- *)
(* t >= s(1 - a - 3 sqrt(a(1-a)/s)), a = 1/100                             *)
(*   <=>  100 t >= 99 s - sqrt(891 s)                                      *)
(*   <=>  99 s - 100 t <= 0  \/  (99 s - 100 t)^2 <= 891 s                 *)
(* Exact in integers; everything stays below 2^31 for s <= 10^6 provided   *)
(* |99 s - 100 t| <= 40000 is tested first (totality on wild values).      *)
Pred(s, t) == LET d == 99 * s - 100 * t IN
              d <= 0 \/ (d <= 40000 /\ d * d <= 891 * s)
IsThreshold(s, t) == /\ t \in Int /\ s \in 1..1000000
                     /\ t >= 0 /\ t <= s
                     /\ Pred(s, t) /\ ~Pred(s, t - 1)
\* the threshold as a function (small s only; used by the workflow models)
ThresholdOf(s) == CHOOSE t \in 0..s : IsThreshold(s, t)

(* ---- uniformity ------------------------------------------------------ *)
Edges == <<"0.1", "0.2", "0.3", "0.4", "0.5", "0.6", "0.7", "0.8", "0.9">>
\* bin index 0..9 of a Q-value: [0,0.1) [0.1,0.2) ... [0.9,1]; decimal literals are compared
Bin(q) == IF RLt(q, Edges[1]) THEN 0 ELSE
          IF RLt(q, Edges[2]) THEN 1 ELSE
          IF RLt(q, Edges[3]) THEN 2 ELSE
          IF RLt(q, Edges[4]) THEN 3 ELSE
          IF RLt(q, Edges[5]) THEN 4 ELSE
          IF RLt(q, Edges[6]) THEN 5 ELSE
          IF RLt(q, Edges[7]) THEN 6 ELSE
          IF RLt(q, Edges[8]) THEN 7 ELSE
          IF RLt(q, Edges[9]) THEN 8 ELSE 9
Hist(qs) == [b \in 0..9 |-> Cardinality({i \in 1..Len(qs) : Bin(qs[i]) = b})]
\* ChiNum(hist, s) = sum (10 F_i - s)^2 ;  V = ChiNum / (10 s) ; V/2 = ChiNum / (20 s)
RECURSIVE ChiNumUpTo(_, _, _)
ChiNumUpTo(h, s, b) == IF b < 0 THEN 0 ELSE (10 * h[b] - s) * (10 * h[b] - s) + ChiNumUpTo(h, s, b - 1)
ChiNum(h, s) == ChiNumUpTo(h, s, 9)
\* real-valued for large s (squares beyond 2^31)
RECURSIVE RChiNumUpTo(_, _, _)
RChiNumUpTo(h, s, b) == IF b < 0 THEN "0" ELSE RAdd(RSq(RSub(RMul(10, h[b]), s)), RChiNumUpTo(h, s, b - 1))
UniformityP(h, s) == RIgamcHalf(9, RDiv(RChiNumUpTo(h, s, 9), RMul(20, s)))
ThresholdQ(qs) == UniformityP(Hist(qs), Len(qs))
AlphaT == "0.0001"
Uniform(h, s) == RGeq(UniformityP(h, s), AlphaT)

(* ---- verdict --------------------------------------------------------- *)
(* cnt : item -> pass count ; hist : item -> histogram ; s samples.        *)
FailsCount(cnt, s, i) == cnt[i] < ThresholdOf(s)
FailsUniform(hist, s, i) == ~Uniform(hist[i], s)
Fails(cnt, hist, s, i) == FailsCount(cnt, s, i) \/ FailsUniform(hist, s, i)
VerdictTrue(cnt, hist, s, items) == \A i \in 1..items : ~Fails(cnt, hist, s, i)
\* the item the code names: first count failure in registry order, else first uniformity failure
FirstCountFail(cnt, s, items) == CHOOSE i \in 1..items : FailsCount(cnt, s, i) /\ \A j \in 1..(i-1) : ~FailsCount(cnt, s, j)
FirstUniFail(hist, s, items) == CHOOSE i \in 1..items : FailsUniform(hist, s, i) /\ \A j \in 1..(i-1) : ~FailsUniform(hist, s, j)
NamedItem(cnt, hist, s, items) ==
   IF \E i \in 1..items : FailsCount(cnt, s, i) THEN FirstCountFail(cnt, s, items)
   ELSE IF \E i \in 1..items : FailsUniform(hist, s, i) THEN FirstUniFail(hist, s, items)
   ELSE 0

(* ---- model-level facts checked by TLC -------------------------------- *)
AnchorsOK == IsThreshold(50, 48) /\ IsThreshold(20, 19) /\ IsThreshold(1000, 981)
             /\ IsThreshold(2816, 2772) /\ IsThreshold(110000, 108801)
UniqueThreshold(s) == Cardinality({t \in 0..s : IsThreshold(s, t)}) = 1
=============================================================================
