--------------------------- MODULE TraceSpectral ---------------------------
(***************************************************************************)
(* Channel T for C19: events recorded from the real fft package, judged    *)
(* against Spectral.tla.                                                   *)
(*  new      N err n           fft.New(N): error iff N < 2 or N > 2^27,    *)
(*                             else .N = largest power of two <= N         *)
(*  impulse  N j samples maxerr   X[k] = exp(-2 pi i jk/N)                 *)
(*  tone     N j samples maxerr   x[t] = exp(+2 pi i jt/N) => X = N delta_j*)
(*  inv      N maxdiff norm       Inverse(Transform(x)) = x                *)
(*  wronglen N len panicked       a slice of the wrong length is refused   *)
(* samples = <<k, re, im>> of selected bins, exact decimals of the float64 *)
(***************************************************************************)
EXTENDS Integers, Sequences, TLC, Json, Spectral

Trace == ndJsonDeserialize("trace.ndjson")
VARIABLE l
\* floating-point accumulation allowance relative to the input norm (statement: "to within floating-point accumulation error")
Tol(norm) == RMul("1e-9", norm)

NewOK(e) == LET r == LastPow2(e.N) IN e.panicked = FALSE /\ e.err = r.err /\ (~r.err => e.n = r.n)
SampleOK(e, s) ==
   LET kk == s[1] IN
   /\ kk \in 0..(e.N - 1) /\ RIsNum(s[2]) /\ RIsNum(s[3])
   /\ IF e.kind = "impulse"
        THEN LET r == RMulMod(e.j, kk, e.N) IN
             RClose(s[2], RCosTurn(r, e.N), Tol(1)) /\ RClose(s[3], RNeg(RSinTurn(r, e.N)), Tol(1))
        ELSE RClose(s[2], IF kk = e.j THEN e.N ELSE 0, Tol(RSqrt(e.N))) /\ RClose(s[3], 0, Tol(RSqrt(e.N)))
FamilyOK(e) == /\ e.panicked = FALSE /\ e.err = FALSE /\ e.j \in 0..(e.N - 1)
               /\ Len(e.samples) >= 1
               /\ \A i \in 1..Len(e.samples) : SampleOK(e, e.samples[i])
               /\ RIsNum(e.maxerr) /\ RLeq(e.maxerr, Tol(IF e.kind = "impulse" THEN 1 ELSE RSqrt(e.N)))
InvOK(e) == e.panicked = FALSE /\ e.err = FALSE /\ RIsNum(e.maxdiff) /\ RIsNum(e.norm) /\ RLeq(e.maxdiff, Tol(e.norm))
WrongLenOK(e) == e.len # LastPow2(e.N).n => (e.panicked = TRUE /\ e.returned = FALSE)

Init == l = 1
Step == /\ l <= Len(Trace)
        /\ LET e == Trace[l] IN
             CASE e.kind = "new" -> NewOK(e)
               [] e.kind \in {"impulse", "tone"} -> FamilyOK(e)
               [] e.kind = "inv" -> InvOK(e)
               [] e.kind = "wronglen" -> WrongLenOK(e)
               [] OTHER -> FALSE
        /\ l' = l + 1
Spec == Init /\ [][Step]_l
Accepted == TLCGet("stats").diameter - 1 = Len(Trace)
=============================================================================
