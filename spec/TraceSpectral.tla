--------------------------- MODULE TraceSpectral ---------------------------
(***************************************************************************)
(* Channel T for C19: events recorded from the real fft package, judged    *)
(* against Spectral.tla.                                                   *)
(*  new      N err n           fft.New(N): error iff N < 2 or N > 2^27,    *)
(*                             else .N = largest power of two <= N         *)
(*  impulse  N j samples maxerr   X[k] = exp(-2 pi i jk/N)                 *)
(*  tone     N j samples maxerr   x[t] = exp(+2 pi i jt/N) => X = N delta_j*)
(*  inv      N maxdiff norm       Inverse(Transform(x)) = x                *)
(*  wronglen N len panicked       a slice of the wrong length is refused   *)
(* samples = <<k, re, im>> of selected bins, exact decimals of the float64 *)
(***************************************************************************)
EXTENDS Integers, Sequences, TLC, Json, Spectral

Trace == ndJsonDeserialize("trace.ndjson")
VARIABLE l
\* floating-point accumulation allowance (statement: "to within floating-point accumulation error (relative to the
\* input norm)"): a radix-2 FFT with accurate twiddles errs by O(eps log2 N) ||x||; measured on the pinned code:
\* 1.4 eps log2 N for impulses and round trips.  A tone is itself built from rounded cos/sin values, which adds
\* O(eps sqrt N) ||x|| (measured 11 eps sqrt N at 2^20).  Allowances: 16 eps log2 N resp. 64 eps sqrt N.
Eps == "2.220446049250313e-16"
LogN(N) == LastPow2(N).p
TolLog(N, norm) == RMul(RMul(RMul(16, Eps), LogN(N)), norm)
TolTone(N) == RMul(RMul(RMul(64, Eps), RSqrt(N)), RSqrt(N))         \* relative allowance 64 eps sqrt N times the norm sqrt N

NewOK(e) == LET r == LastPow2(e.N) IN e.panicked = FALSE /\ e.err = r.err /\ (~r.err => e.n = r.n)
SampleOK(e, s) ==
   LET kk == s[1] IN
   /\ kk \in 0..(e.N - 1) /\ RIsNum(s[2]) /\ RIsNum(s[3])
   /\ IF e.kind = "impulse"
        THEN LET r == RMulMod(e.j, kk, e.N) IN
             RClose(s[2], RCosTurn(r, e.N), TolLog(e.N, 1)) /\ RClose(s[3], RNeg(RSinTurn(r, e.N)), TolLog(e.N, 1))
        ELSE RClose(s[2], IF kk = e.j THEN e.N ELSE 0, TolTone(e.N)) /\ RClose(s[3], 0, TolTone(e.N))
FamilyOK(e) == /\ e.panicked = FALSE /\ e.err = FALSE /\ e.j \in 0..(e.N - 1)
               /\ Len(e.samples) >= 1
               /\ \A i \in 1..Len(e.samples) : SampleOK(e, e.samples[i])
               /\ RIsNum(e.maxerr) /\ RLeq(e.maxerr, IF e.kind = "impulse" THEN TolLog(e.N, 1) ELSE TolTone(e.N))
InvOK(e) == e.panicked = FALSE /\ e.err = FALSE /\ RIsNum(e.maxdiff) /\ RIsNum(e.norm) /\ RLeq(e.maxdiff, TolLog(e.N, e.norm))
WrongLenOK(e) == e.len # LastPow2(e.N).n => (e.panicked = TRUE /\ e.returned = FALSE)

\* every call returns (e.hang); a spectrum a caller still holds from an earlier call of the same transformer is not
\* rewritten by a later call (e.kept); both hold whatever the transformer went through before (a refused call included)
Init == l = 1
Step == /\ l <= Len(Trace)
        /\ Trace[l].hang = FALSE /\ Trace[l].kept = TRUE
        /\ LET e == Trace[l] IN
             CASE e.kind = "new" -> NewOK(e)
               [] e.kind \in {"impulse", "tone"} -> FamilyOK(e)
               [] e.kind = "inv" -> InvOK(e)
               [] e.kind = "wronglen" -> WrongLenOK(e)
               [] OTHER -> FALSE
        /\ l' = l + 1
Spec == Init /\ [][Step]_l
Accepted == TLCGet("stats").diameter - 1 = Len(Trace)
=============================================================================
