------------------------------- MODULE GenAlg -------------------------------
(***************************************************************************)
(* Model + generator for C04 (rank, linear complexity, Maurer).            *)
(*  Family "rank"  : every bit sequence of MinN..MaxN bits, M = RankM      *)
(*                   (1..3 whole matrices plus a discarded tail)           *)
(*  Family "lc"    : every bit sequence of MinN..MaxN bits, block LcM      *)
(*  Family "maurer": pseudo-random / structured block streams (Level 2)    *)
(* Invariants: AlgRank = DefRank, AlgLC = DefLC and InBounds (the store    *)
(* P[j+N-m] stays inside a scratch array of Go length CAP).                *)
(***************************************************************************)
EXTENDS Integers, Sequences, FiniteSets, TLC, Json, AlgTests

CONSTANTS Family, Level, MinN, MaxN, Stride, Sizes, Modes, Seeds,
          RankM, LcM, CAP

VARIABLE k
Total1 == Pow2(MaxN + 1) - Pow2(MinN)
SeqAt(j) == LET n == CHOOSE n \in MinN..MaxN : Pow2(n) - Pow2(MinN) <= j /\ j < Pow2(n + 1) - Pow2(MinN)
                v == j - (Pow2(n) - Pow2(MinN))
            IN [i \in 1..n |-> (v \div Pow2(n - i)) % 2]

M0 == 46337
Mix(a) == ((a % M0) * (a % M0) + 12345) % M0
H(seed, i) == Mix(Mix(Mix((i % M0) * 7919 + seed * 104 + 17) + (i \div M0)) + seed)
\* Maurer block streams: n = Sizes[..] bits; block value per mode
BlockOf(mode, seed, i) ==
   CASE mode = "uni"      -> (H(seed, i) \div 8) % 128
     [] mode = "absent"   -> LET v == (H(seed, i) \div 8) % 128  hole == H(seed, 0) % 128 IN      \* pattern `hole` never occurs among the first 1280 blocks
                             IF i <= 1280 /\ v = hole THEN (v + 1) % 128 ELSE v
     [] mode = "periodic" -> (H(seed, i % (3 + (H(seed, 0) % 50))) \div 8) % 128
     [] mode = "few"      -> (H(seed, i) \div 8) % 5
     [] OTHER -> 0
MaurerBits(mode, n, seed) == [i \in 1..n |-> LET b == ((i - 1) \div 7) + 1  o == (i - 1) % 7 IN (BlockOf(mode, seed, b) \div Pow2(6 - o)) % 2]
Descs == [j \in 1..(Len(Sizes) * Len(Modes) * Len(Seeds)) |->
            LET a == (j - 1) % Len(Sizes)  b == ((j - 1) \div Len(Sizes)) % Len(Modes)  c == (j - 1) \div (Len(Sizes) * Len(Modes))
            IN [n |-> Sizes[a + 1], mode |-> Modes[b + 1], seed |-> Seeds[c + 1]]]

Total == IF Level = 1 THEN Total1 ELSE Len(Descs)
X(j) == Force(IF Level = 1 THEN SeqAt(j) ELSE LET d == Descs[j + 1] IN MaurerBits(d.mode, d.n, d.seed))
Label(j) == IF Level = 1 THEN [n |-> Len(SeqAt(j)), mode |-> "all", seed |-> j] ELSE Descs[j + 1]

R5(pq) == [P |-> pq.P, Q |-> pq.Q]
Calls(x) ==
   CASE Family = "rank" -> << [t |-> "rank", M |-> RankM, N |-> Len(x) \div (RankM * RankM), ranks |-> DefRanks(x, RankM)] @@ R5(RankResult(x, RankM)) >>
     [] Family = "lc"   -> << [t |-> "lc", m |-> LcM, N |-> Len(x) \div LcM, Ls |-> DefLs(x, LcM)] @@ R5(LCResult(x, LcM)) >>
     [] Family = "maurer" -> LET ds == DefMaurerDists(x) IN
                             << [t |-> "maurer", K |-> Len(ds), dist |-> DistHist(ds)] @@ R5(MaurerResult(x)) >>
AlgEqualsDef == k >= 0 /\ k < Total =>
   LET x == X(k) IN
   CASE Family = "rank" -> AlgRanks(x, RankM) = DefRanks(x, RankM)
     [] Family = "lc"   -> \A t \in 1..(Len(x) \div LcM) : LET r == AlgLC(Block(x, LcM, t), CAP) IN ~r.oob /\ r.L = DefLC(Block(x, LcM, t))
     [] Family = "maurer" -> AlgMaurerDists(x) = DefMaurerDists(x)
InBounds == k >= 0 /\ k < Total /\ Family = "lc" =>
   LET x == X(k) IN \A t \in 1..(Len(x) \div LcM) : ~AlgLC(Block(x, LcM, t), CAP).oob

Vector(j) == LET x == X(j) IN [ev |-> "vec", family |-> Family, label |-> Label(j), bits |-> x, calls |-> Calls(x)]
Init == k \in {-1 - s : s \in 0..(Stride - 1)}
Next == LET j == IF k < 0 THEN -1 - k ELSE k + Stride IN
        /\ j < Total
        /\ k' = j
        /\ PrintT(ToJson(Vector(j)))
Spec == Init /\ [][Next]_k

ASSUME \A m \in 1..9 : ClosedFormsOK(m)
=============================================================================
