----------------------------- MODULE TraceStats -----------------------------
(***************************************************************************)
(* Channel T for C01-C04 at sizes TLC cannot enumerate (10^5 .. 10^8 bits).*)
(* The Go driver generates the input from a seed, summarises it with the   *)
(* spec proxy (integer counts only; tied to the Def operators on every     *)
(* small vector of the same run) and records what every entry point of the *)
(* real code returned.  TLC recomputes P/Q from the summary through the PQ *)
(* operators of the specification and judges every recorded result.       *)
(*  {"ev":"stat","t":..,params..,"n":..,"stat":{..},"entries":[{..}]}     *)
(***************************************************************************)
EXTENDS Integers, Sequences, FiniteSets, TLC, Json, SequencesExt, FreqTests, RunTests, CorrTests, AlgTests, Spectral

Trace == ndJsonDeserialize("trace.ndjson")
VARIABLE l
Tol == "1e-8"

\* JSON arrays arrive as 1-based sequences; histogram index p lives at p + 1
RSumSqSeq(h) == FoldLeft(LAMBDA a, c : RAdd(a, RMul(c, c)), "0", h)
PhiSeq(h, n) == FoldLeft(LAMBDA a, c : IF c > 0 THEN RAdd(a, RMul(RDiv(c, n), RLn(RDiv(c, n)))) ELSE a, "0", h)
SumSeqI(h) == FoldLeft(LAMBDA a, c : a + c, 0, h)
AsFn1(h) == [i \in 1..Len(h) |-> h[i]]

Expected(e) ==
  LET s == e.stat  n == e.n IN
  CASE e.t = "mono"  -> MonoPQ(s.S, n)
    [] e.t = "block" -> BlockPQ(s.N, e.m, FoldLeft(LAMBDA a, o : RAdd(a, RSq(RSub(RMul(2, o), e.m))), "0", s.ones))
    [] e.t = "poker" -> PokerPQ(s.N, e.m, RSumSqSeq(s.hist))
    [] e.t = "serial" -> SerialPQ(n, e.m, RSumSqSeq(s.h1), RSumSqSeq(s.h2), RSumSqSeq(s.h3))
    [] e.t = "apen"  -> LET apen == RSub(PhiSeq(s.hm, n), PhiSeq(s.hm1, n))
                            v == RMul(RMul(2, n), RSub(RLn(2), apen))
                            p == RIgamcHalf(Pow2(e.m), RDiv(v, 2))
                        IN [P |-> p, Q |-> p]
    [] e.t = "runs"  -> RunsPQ(n, s.vobs, s.ones)
    [] e.t = "rundist" -> RunDistPQ(s.k, AsFn1(s.b), AsFn1(s.g))
    [] e.t = "longest" -> LongestPQ(s.regime, s.N, AsFn1(s.nu))
    [] e.t = "bd"    -> BDPQ(n, e.k, s.S)
    [] e.t = "ac"    -> ACPQ(n, e.d, s.A)
    [] e.t = "cusum" -> CusumPQ(n, s.Z)
    [] e.t = "rank"  -> RankPQFromRanks(e.M, s.N, s.ranks)
    [] e.t = "lc"    -> LCPQFromLs(e.m, s.N, s.Ls)
    [] e.t = "maurer" -> MaurerPQ(s.K, s.dist)
    [] e.t = "dft"   -> DftPQ(n, s.lo)

\* structural sanity of the summary itself (cheap consistency the proxy must satisfy)
StatSane(e) ==
  LET s == e.stat  n == e.n IN
  CASE e.t = "poker" -> SumSeqI(s.hist) = s.N /\ s.N = n \div e.m /\ Len(s.hist) = Pow2(e.m)
    [] e.t = "serial" -> SumSeqI(s.h1) = n /\ SumSeqI(s.h2) = n /\ SumSeqI(s.h3) = n
    [] e.t = "apen"  -> SumSeqI(s.hm) = n /\ SumSeqI(s.hm1) = n
    [] e.t = "block" -> Len(s.ones) = s.N /\ s.N = n \div e.m
    [] e.t = "rundist" -> s.k = DefK(n)
    [] e.t = "longest" -> s.regime = Regime(n) /\ SumSeqI(s.nu) = s.N /\ s.N = n \div LRm(s.regime)
    [] e.t = "runs"  -> s.vobs >= 1 /\ s.vobs <= n /\ s.ones >= 0 /\ s.ones <= n
    [] OTHER -> TRUE

EntryOK(en, exp, four) ==
  /\ en.panic = "" /\ en.mutated = FALSE /\ en.nondet = FALSE
  /\ RIsNum(en.P) /\ RIsNum(en.Q)
  /\ RClose(en.P, exp.P, Tol) /\ RClose(en.Q, exp.Q, Tol)
  /\ (four => RIsNum(en.P2) /\ RIsNum(en.Q2) /\ RClose(en.P2, exp.P2, Tol) /\ RClose(en.Q2, exp.Q2, Tol))

Init == l = 1
Step == /\ l <= Len(Trace)
        /\ LET e == Trace[l] IN
             /\ e.ev = "stat"
             /\ Len(e.entries) >= 1
             /\ StatSane(e)
             /\ IF e.t = "dft"
                  \* bins within 1e-9 of the threshold may count either way: some admissible N1 explains every entry
                  THEN /\ e.stat.lo >= 0 /\ e.stat.amb >= 0 /\ e.stat.lo + e.stat.amb <= e.n
                       /\ \E a \in 0..e.stat.amb : LET exp == DftPQ(e.n, e.stat.lo + a) IN \A i \in 1..Len(e.entries) : EntryOK(e.entries[i], exp, FALSE)
                  ELSE LET exp == Expected(e) IN \A i \in 1..Len(e.entries) : EntryOK(e.entries[i], exp, e.t = "serial")
        /\ l' = l + 1
Spec == Init /\ [][Step]_l
Accepted == TLCGet("stats").diameter - 1 = Len(Trace)
=============================================================================
