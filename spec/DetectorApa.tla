---------------------------- MODULE DetectorApa ----------------------------
(* Typed copy of Detector.tla for Apalache: inductive invariant IndInv proves OneRowPerFile for the
   given constants at unbounded depth (Init => IndInv, IndInv /\ Next => IndInv', IndInv => Safety). *)
EXTENDS Integers, Sequences, FiniteSets, Apalache

CONSTANTS
  \* @type: Set(Str);
  Files,
  \* @type: Int;
  NW

None == "none"
Workers == 1..NW

VARIABLES
  \* @type: Str;
  mainpc,
  \* @type: Int;
  wg,
  \* @type: Seq(Str);
  report,
  \* @type: Str;
  jobs,
  \* @type: Str;
  out,
  \* @type: Set(Str);
  toWalk,
  \* @type: Int -> Str;
  wpc,
  \* @type: Int -> Str;
  wjob,
  \* @type: Set(Str);
  senders,
  \* @type: Bool;
  exited

CInitBig == Files = {"a", "b", "c", "d", "e", "f"} /\ NW = 4
CInitSmall == Files = {"a", "b", "c", "d"} /\ NW = 3

Init == /\ mainpc = "add" /\ wg = 0 /\ report = <<>> /\ jobs = None /\ out = None
        /\ toWalk = Files /\ wpc = [w \in Workers |-> "idle"] /\ wjob = [w \in Workers |-> None]
        /\ senders = {} /\ exited = FALSE
MainAdd == mainpc = "add" /\ wg' = Cardinality(Files) /\ mainpc' = "header" /\ UNCHANGED <<report, jobs, out, toWalk, wpc, wjob, senders, exited>>
MainHeader == mainpc = "header" /\ report' = <<"HEADER">> /\ mainpc' = "wait" /\ UNCHANGED <<wg, jobs, out, toWalk, wpc, wjob, senders, exited>>
MainExit == mainpc = "wait" /\ wg = 0 /\ mainpc' = "exit" /\ exited' = TRUE /\ UNCHANGED <<wg, report, jobs, out, toWalk, wpc, wjob, senders>>
Started == mainpc = "wait" /\ ~exited
Walk == /\ Started /\ jobs = None /\ toWalk /= {}
        /\ \E f \in toWalk : jobs' = f /\ toWalk' = toWalk \ {f}
        /\ UNCHANGED <<mainpc, wg, report, out, wpc, wjob, senders, exited>>
Recv(w) == /\ Started /\ wpc[w] = "idle" /\ jobs /= None
           /\ wjob' = [wjob EXCEPT ![w] = jobs] /\ jobs' = None /\ wpc' = [wpc EXCEPT ![w] = "work"]
           /\ UNCHANGED <<mainpc, wg, report, out, toWalk, senders, exited>>
Spawn(w) == /\ Started /\ wpc[w] = "work"
            /\ senders' = senders \union {wjob[w]} /\ wpc' = [wpc EXCEPT ![w] = "idle"]
            /\ UNCHANGED <<mainpc, wg, report, jobs, out, toWalk, wjob, exited>>
Send == /\ Started /\ out = None /\ \E f \in senders : out' = f /\ senders' = senders \ {f}
        /\ UNCHANGED <<mainpc, wg, report, jobs, toWalk, wpc, wjob, exited>>
Write == /\ Started /\ out /= None
         /\ report' = Append(report, out) /\ out' = None /\ wg' = wg - 1
         /\ UNCHANGED <<mainpc, jobs, toWalk, wpc, wjob, senders, exited>>
Next == MainAdd \/ MainHeader \/ MainExit \/ Walk \/ Send \/ Write \/ \E w \in Workers : Recv(w) \/ Spawn(w)

Rows == {report[i] : i \in (DOMAIN report) \ {1}}
InJobs == IF jobs = None THEN {} ELSE {jobs}
InOut == IF out = None THEN {} ELSE {out}
Working == {wjob[w] : w \in {v \in Workers : wpc[v] = "work"}}
NWorking == Cardinality({v \in Workers : wpc[v] = "work"})

TypeOK == /\ mainpc \in {"add", "header", "wait", "exit"}
          /\ wg \in 0..Cardinality(Files)
          /\ Len(report) <= Cardinality(Files) + 1
          /\ jobs \in Files \union {None} /\ out \in Files \union {None}
          /\ toWalk \subseteq Files /\ senders \subseteq Files
          /\ wpc \in [Workers -> {"idle", "work"}]
          /\ wjob \in [Workers -> Files \union {None}]
          /\ None \notin Files
\* every file is in exactly one place; the WaitGroup counts the rows still to be written
IndInv ==
  /\ TypeOK
  /\ (mainpc = "add" => wg = 0 /\ report = <<>>)
  /\ (mainpc = "header" => wg = Cardinality(Files) /\ report = <<>>)
  /\ (mainpc \in {"add", "header"} => toWalk = Files /\ jobs = None /\ out = None /\ senders = {} /\ (\A w \in Workers : wpc[w] = "idle") /\ ~exited)
  /\ (mainpc \in {"wait", "exit"} =>
        /\ Len(report) >= 1 /\ report[1] = "HEADER"
        /\ wg = Cardinality(Files) - (Len(report) - 1)
        /\ Rows \subseteq Files
        /\ Cardinality(Rows) = Len(report) - 1                      \* rows pairwise distinct
        /\ \A v1, v2 \in Workers : (v1 /= v2 /\ wpc[v1] = "work" /\ wpc[v2] = "work") => wjob[v1] /= wjob[v2]
        /\ \A v \in Workers : wpc[v] = "work" => wjob[v] \in Files
        /\ toWalk \union InJobs \union Working \union senders \union InOut \union Rows = Files
        /\ Cardinality(toWalk) + Cardinality(InJobs) + NWorking + Cardinality(senders) + Cardinality(InOut) + Cardinality(Rows) = Cardinality(Files))
  /\ (exited <=> mainpc = "exit")
  /\ (mainpc = "exit" => wg = 0)
IndInit == /\ mainpc \in {"add", "header", "wait", "exit"} /\ wg \in 0..Cardinality(Files) /\ report = Gen(7)
           /\ jobs \in Files \union {None} /\ out \in Files \union {None}
           /\ toWalk \in SUBSET Files /\ senders \in SUBSET Files
           /\ wpc \in [Workers -> {"idle", "work"}] /\ wjob \in [Workers -> Files \union {None}]
           /\ exited \in BOOLEAN
           /\ IndInv
OneRowPerFile == exited => (Rows = Files /\ Len(report) = 1 + Cardinality(Files))
=============================================================================
