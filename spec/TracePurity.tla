---------------------------- MODULE TracePurity ----------------------------
(***************************************************************************)
(* Channel T for C18: one event per realised plan.                         *)
(*  {"ev":"conc","goroutines":G,"calls":n,"mismatch":k,"mutated":b,        *)
(*   "tablesChanged":b,"panic":"","repeatMismatch":k2}                     *)
(* mismatch = concurrent results that are not bit-identical to the         *)
(* solitary result of the same (test, input); repeatMismatch = solitary    *)
(* repeat calls that differ; tablesChanged = probe results differ after.   *)
(***************************************************************************)
EXTENDS Integers, Sequences, TLC, Json
Trace == ndJsonDeserialize("trace.ndjson")
VARIABLE l
EventOK(e) == /\ e.panic = "" /\ e.goroutines \in 2..64 /\ e.calls >= e.goroutines
              /\ e.mismatch = 0 /\ e.repeatMismatch = 0 /\ e.mutated = FALSE /\ e.tablesChanged = FALSE
Init == l = 1
Step == /\ l <= Len(Trace) /\ Trace[l].ev = "conc" /\ EventOK(Trace[l]) /\ l' = l + 1
Spec == Init /\ [][Step]_l
Accepted == TLCGet("stats").diameter - 1 = Len(Trace)
=============================================================================
