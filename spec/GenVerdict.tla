----------------------------- MODULE GenVerdict -----------------------------
(***************************************************************************)
(* C07 model / generator.  Enumerates, for one workflow kind (SS samples,  *)
(* Items test items), every Q-value histogram up to permutation of bins    *)
(* (= every partition of SS into at most 10 parts) and every pass count,   *)
(* checks the decision rule of Decision.tla on each, and emits result      *)
(* matrices (as per-item pass counts and histograms) with the expected     *)
(* verdict and the set of items that violate a criterion.  The Go driver   *)
(* realises each matrix through stub runners and calls the real workflow.  *)
(***************************************************************************)
EXTENDS Integers, Sequences, FiniteSets, TLC, Json, Decision

CONSTANTS SS, Items,
          Band      \* emit uniformity vectors only when |ChiNum - CStar| <= Band (99999999 = all)

\* Q(9/2, x) = 0.0001 at x = XStar; checked below.  V/2 = ChiNum/(20 s) <= XStar  <=>  ChiNum <= CStar
XStarLo == "16.8599742194823169"
XStarHi == "16.8599742194823171"
ASSUME RGeq(RIgamcHalf(9, XStarLo), AlphaT) /\ RLt(RIgamcHalf(9, XStarHi), AlphaT)
CStar == RFloor(RMul(RMul(20, SS), XStarLo))
ASSUME CStar = RFloor(RMul(RMul(20, SS), XStarHi))     \* no integer between the brackets
T == ThresholdOf(SS)

VARIABLES phase,   \* "part" partitions | "cnt" pass counts | "two" two failing items | "end"
          parts,   \* nonincreasing sequence of bin counts (a partition in progress)
          k, c     \* item / count cursors of the later phases

vars == <<phase, parts, k, c>>
RECURSIVE SumSeq(_)
SumSeq(q) == IF q = <<>> THEN 0 ELSE Head(q) + SumSeq(Tail(q))
HistOf(p) == [b \in 0..9 |-> IF b + 1 <= Len(p) THEN p[b + 1] ELSE 0]
Flat == [b \in 0..9 |-> SS \div 10]
Complete(p) == SumSeq(p) = SS

ItemFor(h) == 1 + ((ChiNum(h, SS) \div 100) % Items)
QModeFor(h) == <<"center", "edge", "edgehi", "edgebelow">>[1 + ((ChiNum(h, SS) \div 100) % 4)]

\* decision of a matrix in which only the listed items deviate from the benign default
CntOf(plan) == [i \in 1..Items |-> IF \E e \in plan : e.item = i THEN (CHOOSE e \in plan : e.item = i).pass ELSE SS]
HistsOf(plan) == [i \in 1..Items |-> IF \E e \in plan : e.item = i THEN (CHOOSE e \in plan : e.item = i).hist ELSE Flat]
Failing(plan) == {i \in 1..Items : Fails(CntOf(plan), HistsOf(plan), SS, i)}
Vector(kind, plan, qmode) ==
   [ev |-> "verdict", kind |-> kind, s |-> SS, items |-> Items, plan |-> plan, qmode |-> qmode,
    verdict |-> VerdictTrue(CntOf(plan), HistsOf(plan), SS, Items),
    failing |-> Failing(plan),
    named |-> NamedItem(CntOf(plan), HistsOf(plan), SS, Items)]
Emit(kind, plan, qmode) == PrintT(ToJson(Vector(kind, plan, qmode)))

Abs(x) == IF x < 0 THEN -x ELSE x
Init == phase = "part" /\ parts = <<>> /\ k = 0 /\ c = 0

\* grow the partition by one part (<= previous part, total <= SS, at most 10 parts)
Grow == /\ phase = "part" /\ Len(parts) < 10 /\ ~Complete(parts)
        /\ \E p \in 1..(IF parts = <<>> THEN SS ELSE parts[Len(parts)]) :
             /\ SumSeq(parts) + p <= SS
             \* the remaining bins must be able to absorb the rest: p * (10 - Len(parts)) >= SS - Sum
             /\ p * (10 - Len(parts)) >= SS - SumSeq(parts)
             /\ parts' = Append(parts, p)
             /\ (Complete(parts') /\ Abs(ChiNum(HistOf(parts'), SS) - CStar) <= Band =>
                   LET h == HistOf(parts') IN
                   Emit("uni", {[item |-> ItemFor(h), pass |-> IF ChiNum(h, SS) % 200 = 0 THEN SS ELSE T, hist |-> h]}, QModeFor(h)))
        /\ UNCHANGED <<phase, k, c>>
ToCnt == /\ phase = "part" /\ parts = <<>> /\ phase' = "cnt" /\ k' = 1 /\ c' = 0 /\ UNCHANGED parts
\* every pass count for every item, benign histogram
Cnt == /\ phase = "cnt"
       /\ Emit("cnt", {[item |-> k, pass |-> c, hist |-> Flat]}, "center")
       /\ IF c < SS THEN c' = c + 1 /\ UNCHANGED <<k, phase>>
          ELSE IF k < Items THEN k' = k + 1 /\ c' = 0 /\ UNCHANGED phase
          ELSE phase' = "two" /\ k' = 1 /\ c' = 2
       /\ UNCHANGED parts
\* two deviating items k # c: k fails the count, c fails uniformity (all mass in one bin)
OneBin == [b \in 0..9 |-> IF b = 3 THEN SS ELSE 0]
Two == /\ phase = "two"
       /\ (k # c => Emit("two", {[item |-> k, pass |-> T - 1, hist |-> Flat], [item |-> c, pass |-> SS, hist |-> OneBin]}, "center"))
       /\ IF c < Items THEN c' = c + 1 /\ UNCHANGED <<k, phase>>
          ELSE IF k < Items THEN k' = k + 1 /\ c' = 1 /\ UNCHANGED phase
          ELSE phase' = "end" /\ UNCHANGED <<k, c>>
       /\ UNCHANGED parts
Next == Grow \/ ToCnt \/ Cnt \/ Two
Spec == Init /\ [][Next]_vars

(* ---- the decision rule on the model ---- *)
\* integer critical value and real-layer P-value agree on every histogram class
CriticalValueAgrees == (phase = "part" /\ Complete(parts)) =>
      (Uniform(HistOf(parts), SS) <=> ChiNum(HistOf(parts), SS) <= CStar)
\* uniformity P is in [0,1] and flat histograms are accepted
UniformityRange == (phase = "part" /\ Complete(parts)) => RInUnit(UniformityP(HistOf(parts), SS), "0")
FlatAccepted == Uniform(Flat, SS) /\ ~Uniform(OneBin, SS)
\* verdict <=> no failing item; named item is a failing one; count criterion alone
VerdictRule == phase = "cnt" =>
      LET plan == {[item |-> k, pass |-> c, hist |-> Flat]} IN
        /\ VerdictTrue(CntOf(plan), HistsOf(plan), SS, Items) <=> (c >= T)
        /\ (c < T => NamedItem(CntOf(plan), HistsOf(plan), SS, Items) = k)
        /\ (c >= T => NamedItem(CntOf(plan), HistsOf(plan), SS, Items) = 0)
NamedIsFailing == phase = "two" /\ k # c =>
      LET plan == {[item |-> k, pass |-> T - 1, hist |-> Flat], [item |-> c, pass |-> SS, hist |-> OneBin]} IN
        /\ Failing(plan) = {k, c}
        /\ NamedItem(CntOf(plan), HistsOf(plan), SS, Items) \in Failing(plan)
        /\ ~VerdictTrue(CntOf(plan), HistsOf(plan), SS, Items)
=============================================================================
