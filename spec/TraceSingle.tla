---------------------------- MODULE TraceSingle ----------------------------
(***************************************************************************)
(* Channel T for C11 (and the SingleDetect clause of C14): one event per   *)
(* call of the real detect.SingleDetect with the pattern histograms of the *)
(* bytes it was offered (m = 2, 4, 8).  Contents whose P-value is within   *)
(* 1e-9 of 0.01 are accepted either way.                                   *)
(***************************************************************************)
EXTENDS Integers, Sequences, TLC, Json, Single
Trace == ndJsonDeserialize("trace.ndjson")
VARIABLE l
SumSeqI(h) == FoldLeft(LAMBDA a, c : a + c, 0, h)
EventOK(e) ==
   /\ e.hang = FALSE /\ e.panic = FALSE
   /\ e.numByte \in 0..5000000
   /\ e.maxreq <= e.numByte                       \* never asks for more than numByte bytes
   /\ IF TooShort(e.numByte) THEN e.verdict = FALSE /\ e.haserr = TRUE
      ELSE /\ Len(e.h2) = 4 /\ Len(e.h4) = 16 /\ Len(e.h8) = 256
           /\ SumSeqI(e.h2) = 4 * e.numByte /\ SumSeqI(e.h4) = 2 * e.numByte /\ SumSeqI(e.h8) = e.numByte
           /\ e.haserr = FALSE /\ e.consumed = e.numByte
           /\ LET sv == SingleVerdictFromHist(e.numByte, e.h2, e.h4, e.h8) IN
              RClose(sv.P, Alpha, "1e-9") \/ e.verdict = sv.verdict
           /\ (e.mustreject => e.verdict = FALSE)  \* C14: all-zero / all-one content is rejected at every length
Init == l = 1
Step == /\ l <= Len(Trace) /\ Trace[l].ev = "single1" /\ EventOK(Trace[l]) /\ l' = l + 1
Spec == Init /\ [][Step]_l
Accepted == TLCGet("stats").diameter - 1 = Len(Trace)
=============================================================================
