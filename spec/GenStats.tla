------------------------------ MODULE GenStats ------------------------------
(***************************************************************************)
(* Model + generator for the statistical tests C01-C03 (and the inputs of  *)
(* C15-C18).                                                               *)
(*   Level = 1 : every bit sequence with MinN <= n <= MaxN is a state;     *)
(*               invariants Alg = Def for every applicable test/parameter; *)
(*               each state is emitted as a replay vector with the         *)
(*               expected P/Q (real layer) and the integer summary.        *)
(*   Level = 2 : structured / pseudo-random sequences of mid size          *)
(*               (100..20000 bits) from generator descriptors; expected    *)
(*               values from the Def operators.                            *)
(* The Go driver replays every vector into all entry points of the test.   *)
(***************************************************************************)
EXTENDS Integers, Sequences, FiniteSets, TLC, Json, FreqTests, RunTests, CorrTests

CONSTANTS Family,      \* "freq" | "run" | "corr"
          Level, MinN, MaxN,
          Stride,      \* number of parallel enumeration lanes
          Sizes, Modes, Seeds   \* Level 2 descriptor space (sequences / sets)

VARIABLE k             \* enumeration index

(* ---------------- Level 1: all sequences ---------------- *)
Total1 == Pow2(MaxN + 1) - Pow2(MinN)
SeqAt(j) == LET n == CHOOSE n \in MinN..MaxN : Pow2(n) - Pow2(MinN) <= j /\ j < Pow2(n + 1) - Pow2(MinN)
                v == j - (Pow2(n) - Pow2(MinN))
            IN [i \in 1..n |-> (v \div Pow2(n - i)) % 2]

(* ---------------- Level 2: generator descriptors ---------------- *)
M0 == 46337        \* prime below sqrt(2^31): x*x stays in 32-bit integers
Mix(a) == ((a % M0) * (a % M0) + 12345) % M0
H(seed, i) == Mix(Mix(Mix((i % M0) * 7919 + seed * 104 + 17) + (i \div M0)) + seed)
GenBit(mode, n, seed, i) ==
   CASE mode = "uni"    -> (H(seed, i) \div 8) % 2
     [] mode = "bias25" -> IF (H(seed, i) \div 8) % 4 = 0 THEN 1 ELSE 0
     [] mode = "bias75" -> IF (H(seed, i) \div 8) % 4 = 0 THEN 0 ELSE 1
     [] mode = "const0" -> 0
     [] mode = "const1" -> 1
     [] mode = "alt"    -> i % 2
     [] mode = "step"   -> IF i <= 1 + (H(seed, 0) % n) THEN 0 ELSE 1
     [] mode = "longrun" -> LET p == 1 + (H(seed, 0) % n)  L == 1 + (H(seed, 1) % (n \div 2)) IN
                            IF i >= p /\ i < p + L THEN 1 ELSE (H(seed, i) \div 8) % 2
     [] mode = "longzero" -> LET p == 1 + (H(seed, 0) % n)  L == 1 + (H(seed, 1) % (n \div 2)) IN
                            IF i >= p /\ i < p + L THEN 0 ELSE (H(seed, i) \div 8) % 2
     [] mode = "periodic" -> LET w == 2 + (H(seed, 0) % 37) IN
                             IF H(seed + 1, i) % 97 = 0 THEN (H(seed, i) \div 8) % 2 ELSE (H(seed, i % w) \div 8) % 2
     [] mode = "stair"  -> IF (i \div (1 + (H(seed, 0) % 40))) % 2 = 0 THEN 1 ELSE 0
     [] OTHER -> 0
Descs == [j \in 1..(Len(Sizes) * Len(Modes) * Len(Seeds)) |->
            LET a == (j - 1) % Len(Sizes)  b == ((j - 1) \div Len(Sizes)) % Len(Modes)  c == (j - 1) \div (Len(Sizes) * Len(Modes))
            IN [n |-> Sizes[a + 1], mode |-> Modes[b + 1], seed |-> Seeds[c + 1]]]
SeqOfDesc(d) == [i \in 1..d.n |-> GenBit(d.mode, d.n, d.seed, i)]

Total == IF Level = 1 THEN Total1 ELSE Len(Descs)
X(j) == Force(IF Level = 1 THEN SeqAt(j) ELSE SeqOfDesc(Descs[j + 1]))
Label(j) == IF Level = 1 THEN [n |-> Len(SeqAt(j)), mode |-> "all", seed |-> j] ELSE Descs[j + 1]

(* ---------------- calls per family ---------------- *)
R5(pq) == [P |-> pq.P, Q |-> pq.Q]
FreqCalls(x) ==
   LET n == Len(x) IN
   << [t |-> "mono", S |-> DefMonoS(x)] @@ R5(MonoResult(x)) >>
   \o [i \in 1..Cardinality({m \in {2, 3, 5, 8, 10, 100, 1000} : m <= n}) |->
         LET ms == SetToSortSeq({m \in {2, 3, 5, 8, 10, 100, 1000} : m <= n}, <)  m == ms[i] IN
         [t |-> "block", m |-> m, N |-> NBlocks(x, m), dev |-> DefBlockDev(x, m), auto |-> (m = SelectM(n))] @@ R5(BlockResult(x, m))]
   \o << [t |-> "block", m |-> n, N |-> 1, dev |-> DefBlockDev(x, n), auto |-> FALSE] @@ R5(BlockResult(x, n)) >>
   \o [i \in 1..3 |-> LET m == <<2, 4, 8>>[i] IN
         [t |-> "poker", m |-> m, N |-> NBlocks(x, m), hist |-> DefPokerHist(x, m)] @@ R5(PokerResult(x, m))]
   \o [i \in 1..4 |-> LET m == <<2, 3, 5, 7>>[i]  r == SerialResult(x, m) IN
         [t |-> "serial", m |-> m, s1 |-> SumSq(DefCycHist(x, m), Pow2(m)), s2 |-> SumSq(DefCycHist(x, m - 1), Pow2(m - 1)),
          s3 |-> SumSq(DefCycHist(x, m - 2), Pow2(m - 2)), P |-> r.P, Q |-> r.Q, P2 |-> r.P2, Q2 |-> r.Q2]]
   \o [i \in 1..3 |-> LET m == <<2, 5, 7>>[i] IN
         [t |-> "apen", m |-> m, hm |-> DefCycHist(x, m), hm1 |-> DefCycHist(x, m + 1)] @@ R5(ApEnResult(x, m))]
FreqInv(x) ==
   /\ MonoAgrees(x)
   /\ \A m \in {2, 3, 5, 8, 10, Len(x)} : m <= Len(x) => BlockAgrees(x, m)
   /\ \A m \in {2, 4, 8} : PokerAgrees(x, m)
   /\ \A m \in {2, 3, 5, 7} : SerialAgrees(x, m)
   /\ \A m \in {2, 5, 7} : ApEnAgrees(x, m)

RunCalls(x) ==
   LET n == Len(x)  d == DefRuns(x) IN
   << [t |-> "runs", vobs |-> d.vobs, ones |-> d.ones] @@ R5(RunsResult(x)) >>
   \o (IF n >= 100 THEN LET rd == DefRunDist(x) IN << [t |-> "rundist", k |-> rd.k, b |-> rd.b, g |-> rd.g] @@ R5(RunDistResult(x)) >> ELSE <<>>)
   \o (IF n >= 128 THEN [i \in 1..2 |-> LET sym == <<1, 0>>[i]  dl == DefLongest(x, sym) IN
                            [t |-> "longest", sym |-> sym, regime |-> dl.regime, N |-> dl.N, nu |-> dl.nu] @@ R5(LongestResult(x, sym))]
       ELSE <<>>)
RunInv(x) ==
   /\ RunsAgrees(x)
   /\ (Len(x) >= 100 => RunDistAgrees(x))
   /\ (Len(x) >= 128 => LongestAgrees(x, 1) /\ LongestAgrees(x, 0))

CorrCalls(x) ==
   LET n == Len(x) IN
   [i \in 1..Cardinality({kk \in {3, 7, 15} : kk < n}) |->
       LET ks == SetToSortSeq({kk \in {3, 7, 15} : kk < n}, <)  kk == ks[i] IN
       [t |-> "bd", k |-> kk, S |-> DefBD(x, kk)] @@ R5(BDResult(x, kk))]
   \o [i \in 1..Cardinality({d \in {1, 2, 8, 16, 32} : d < n /\ n >= 16}) |->
       LET ds == SetToSortSeq({d \in {1, 2, 8, 16, 32} : d < n /\ n >= 16}, <)  d == ds[i] IN
       [t |-> "ac", d |-> d, A |-> DefAC(x, d)] @@ R5(ACResult(x, d))]
   \o [i \in 1..2 |-> LET f == <<TRUE, FALSE>>[i] IN
       [t |-> "cusum", forward |-> f, Z |-> DefCusumZ(x, f)] @@ R5(CusumResult(x, f))]
CorrInv(x) ==
   /\ \A kk \in {3, 7, 15} : kk < Len(x) => BDAgrees(x, kk)
   /\ \A d \in {1, 2, 8, 16, 32} : d < Len(x) => ACAgrees(x, d)
   /\ CusumAgrees(x, TRUE) /\ CusumAgrees(x, FALSE)

Calls(x) == CASE Family = "freq" -> FreqCalls(x) [] Family = "run" -> RunCalls(x) [] Family = "corr" -> CorrCalls(x)
AlgEqualsDef == k >= 0 /\ k < Total =>
   LET x == X(k) IN CASE Family = "freq" -> FreqInv(x) [] Family = "run" -> RunInv(x) [] Family = "corr" -> CorrInv(x)

Vector(j) == LET x == X(j) IN [ev |-> "vec", family |-> Family, label |-> Label(j), bits |-> x, calls |-> Calls(x)]

Init == k \in {-1 - s : s \in 0..(Stride - 1)}           \* lane s starts before index s
Next == LET j == IF k < 0 THEN -1 - k ELSE k + Stride IN
        /\ j < Total
        /\ k' = j
        /\ PrintT(ToJson(Vector(j)))
Spec == Init /\ [][Next]_k

(* model facts *)
ASSUME TableMatchesExact
ASSUME TableSumsToOne
ASSUME \A n \in 100..3000 : AlgK(n) = DefK(n)
ASSUME \A n \in {100, 999, 1000, 9999, 10000, 999999, 1000000, 99999999, 100000000} :
          SelectM(n) = (IF n < 1000 THEN 10 ELSE IF n < 10000 THEN 100 ELSE IF n < 1000000 THEN 1000 ELSE IF n < 100000000 THEN 10000 ELSE 1000000)
=============================================================================
