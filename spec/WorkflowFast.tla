---------------------------- MODULE WorkflowFast ----------------------------
(***************************************************************************)
(* The parallel detection workflows of detect/detect_fast.go               *)
(* (FactoryDetectFast / PowerOnDetectFast / PeriodDetectFast), one action  *)
(* per critical section of main, bootWorker, worker and sampleSource.      *)
(*                                                                         *)
(* The stream is a sequence of chunk ids 0,1,2,...; a sample is C          *)
(* consecutive chunks; one Read action is one source.Read call and may     *)
(* return any count 1..requested (short reads).  A worker's buffer is      *)
(* reused across jobs and initially holds "zero bytes" (id -1).            *)
(*                                                                         *)
(* Switches reproduce the defects of the pinned commit (DESIGN.md 5):      *)
(*   UseReadFull = FALSE   single source.Read per sample          (F3)     *)
(*   UseLock     = FALSE   no mutex around the read loop          (F3)     *)
(*   DoneOnError = FALSE   `continue` without wait.Done()         (F2)     *)
(*   SurfaceError= FALSE   read error never reported              (F2)     *)
(* All TRUE is the repaired protocol that /repo now implements.            *)
(* Transient models a source that returns an error once and then works     *)
(* again; NonSticky is the matching negative control (the first error is   *)
(* forgotten when a later sample is read successfully).                    *)
(***************************************************************************)
EXTENDS Integers, Sequences, FiniteSets, TLC

CONSTANTS W,            \* number of workers (runtime.NumCPU())
          S,            \* samples per detection
          C,            \* chunks per sample
          FailAt,       \* stream position (chunk index) at which the source fails; 99 = never
          PartialErr,   \* TRUE: the failing Read also delivers the chunks before FailAt (n > 0, err # nil)
          UseReadFull, UseLock, DoneOnError, SurfaceError,
          Transient,    \* TRUE: the source fails exactly once at FailAt and then recovers
          NonSticky     \* TRUE (negative control): a recorded read error is overwritten by the next successful sample

None == 99
Workers == 1..W

VARIABLES mainpc,   \* "add" | "send" | "wait" | "decide" | "returned"
          chan,     \* unbuffered jobs channel: None or the job index on offer
          sent,     \* jobs handed over so far
          wg,       \* WaitGroup counter
          closed,   \* jobs channel closed (deferred close runs at return)
          pc,       \* worker -> "recv" | "lock" | "read" | "unlock" | "round" | "done" | "errdone" | "exited"
          job,      \* worker -> job index
          buf,      \* worker -> sequence of C chunk ids (reusable buffer)
          filled,   \* worker -> chunks filled for the current job
          pos,      \* stream position
          holder,   \* mutex owner or None
          srcErr,   \* sticky first read error recorded by sampleSource
          failed,   \* the source has returned an error at least once (ghost)
          slots,    \* job index -> buffer judged for it, or <<>> if never written
          writes,   \* job index -> number of times its result slots were written (ghost)
          verdict, err

vars == <<mainpc, chan, sent, wg, closed, pc, job, buf, filled, pos, holder, srcErr, failed, slots, writes, verdict, err>>

Sample(k) == [c \in 1..C |-> k * C + c - 1]          \* the k-th consecutive sample of the stream
IsSample(b) == \E k \in 0..(S-1) : b = Sample(k)

Init ==
  /\ mainpc = "add" /\ chan = None /\ sent = 0 /\ wg = 0 /\ closed = FALSE
  /\ pc = [w \in Workers |-> "recv"] /\ job = [w \in Workers |-> None]
  /\ buf = [w \in Workers |-> [c \in 1..C |-> -1]] /\ filled = [w \in Workers |-> 0]
  /\ pos = 0 /\ holder = None /\ srcErr = FALSE /\ failed = FALSE
  /\ slots = [i \in 0..(S-1) |-> <<>>] /\ writes = [i \in 0..(S-1) |-> 0]
  /\ verdict = None /\ err = FALSE

(* ---------------- main goroutine ---------------- *)
MainAdd == /\ mainpc = "add" /\ wg' = S /\ mainpc' = "send"
           /\ UNCHANGED <<chan, sent, closed, pc, job, buf, filled, pos, holder, srcErr, failed, slots, writes, verdict, err>>
MainOffer == /\ mainpc = "send" /\ chan = None /\ sent < S
             /\ chan' = sent
             /\ UNCHANGED <<mainpc, sent, wg, closed, pc, job, buf, filled, pos, holder, srcErr, failed, slots, writes, verdict, err>>
MainSentAll == /\ mainpc = "send" /\ chan = None /\ sent = S /\ mainpc' = "wait"
               /\ UNCHANGED <<chan, sent, wg, closed, pc, job, buf, filled, pos, holder, srcErr, failed, slots, writes, verdict, err>>
MainWait == /\ mainpc = "wait" /\ wg = 0 /\ mainpc' = "decide"
            /\ UNCHANGED <<chan, sent, wg, closed, pc, job, buf, filled, pos, holder, srcErr, failed, slots, writes, verdict, err>>
\* the decision itself is Decision.tla's business; here the verdict is TRUE iff no error is
\* surfaced and every judged buffer is a genuine sample ("good" stands for "whatever the
\* sequential workflow computes from the same samples").
MainDecide == /\ mainpc = "decide"
              /\ IF SurfaceError /\ srcErr THEN verdict' = FALSE /\ err' = TRUE
                 \* an unwritten slot (Q = 0.0, no pass counted) is within the slack of the decision rule
                 \* (19 of 20, 48 of 50), so by itself it does not turn the verdict: completeness is
                 \* the business of JudgedSet / FaultMeansFalse, not of the decision
                 ELSE /\ verdict' = (\A i \in 0..(S-1) : slots[i] # <<>> => IsSample(slots[i]))
                      /\ err' = ~verdict'
              /\ mainpc' = "returned" /\ closed' = TRUE
              /\ UNCHANGED <<chan, sent, wg, pc, job, buf, filled, pos, holder, srcErr, failed, slots, writes>>

(* ---------------- worker goroutines ---------------- *)
Recv(w) == /\ pc[w] = "recv" /\ chan # None
           /\ job' = [job EXCEPT ![w] = chan] /\ chan' = None /\ sent' = sent + 1
           /\ filled' = [filled EXCEPT ![w] = 0]
           /\ pc' = [pc EXCEPT ![w] = IF UseLock THEN "lock" ELSE "read"]
           /\ UNCHANGED <<mainpc, wg, closed, buf, pos, holder, srcErr, failed, slots, writes, verdict, err>>
Exit(w) == /\ pc[w] = "recv" /\ chan = None /\ closed
           /\ pc' = [pc EXCEPT ![w] = "exited"]
           /\ UNCHANGED <<mainpc, chan, sent, wg, closed, job, buf, filled, pos, holder, srcErr, failed, slots, writes, verdict, err>>
Healed == Transient /\ failed
Lock(w) == /\ pc[w] = "lock" /\ holder = None
           /\ holder' = w
           \* sampleSource.next: a recorded error is returned without touching the source again
           /\ pc' = [pc EXCEPT ![w] = IF srcErr /\ ~NonSticky THEN "unlock" ELSE "read"]
           /\ UNCHANGED <<mainpc, chan, sent, wg, closed, job, buf, filled, pos, srcErr, failed, slots, writes, verdict, err>>
AfterRead(w) == IF UseLock THEN "unlock" ELSE "round"
\* one source.Read call
ReadOK(w) ==
  /\ pc[w] = "read" /\ (UseLock => holder = w)
  /\ (pos < FailAt \/ Healed)
  /\ \E k \in 1..(C - filled[w]) :
       /\ (Healed \/ pos + k <= FailAt)
       /\ pos + k <= S * C + C
       /\ buf' = [buf EXCEPT ![w] = [c \in 1..C |-> IF c > filled[w] /\ c <= filled[w] + k THEN pos + (c - filled[w]) - 1 ELSE @[c]]]
       /\ pos' = pos + k
       /\ filled' = [filled EXCEPT ![w] = @ + k]
       /\ pc' = [pc EXCEPT ![w] = IF filled[w] + k = C \/ ~UseReadFull THEN AfterRead(w) ELSE "read"]
       /\ srcErr' = IF NonSticky /\ filled[w] + k = C THEN FALSE ELSE srcErr
  /\ UNCHANGED <<mainpc, chan, sent, wg, closed, job, holder, failed, slots, writes, verdict, err>>
\* the failing Read: returns an error (possibly with the last chunks before FailAt already delivered
\* by earlier ReadOK steps; PartialErr delivers nothing more here because chunks are the granularity)
ReadFail(w) ==
  /\ pc[w] = "read" /\ (UseLock => holder = w)
  /\ pos >= FailAt /\ ~Healed
  /\ srcErr' = TRUE /\ failed' = TRUE
  \* io.ReadFull: an error that arrives when the buffer is already full cannot happen (loop ended)
  /\ pc' = [pc EXCEPT ![w] = IF UseLock THEN "unlock" ELSE "errdone"]
  /\ UNCHANGED <<mainpc, chan, sent, wg, closed, job, buf, filled, pos, holder, slots, writes, verdict, err>>
Unlock(w) == /\ pc[w] = "unlock" /\ holder = w
             /\ holder' = None
             /\ pc' = [pc EXCEPT ![w] = IF srcErr /\ filled[w] < C THEN "errdone" ELSE "round"]
             /\ UNCHANGED <<mainpc, chan, sent, wg, closed, job, buf, filled, pos, srcErr, failed, slots, writes, verdict, err>>
Round(w) == /\ pc[w] = "round"
            /\ slots' = [slots EXCEPT ![job[w]] = buf[w]]
            /\ writes' = [writes EXCEPT ![job[w]] = @ + 1]
            /\ pc' = [pc EXCEPT ![w] = "done"]
            /\ UNCHANGED <<mainpc, chan, sent, wg, closed, job, buf, filled, pos, holder, srcErr, failed, verdict, err>>
Done(w) == /\ pc[w] = "done"
           /\ wg' = wg - 1
           /\ pc' = [pc EXCEPT ![w] = "recv"]
           /\ UNCHANGED <<mainpc, chan, sent, closed, job, buf, filled, pos, holder, srcErr, failed, slots, writes, verdict, err>>
ErrDone(w) == /\ pc[w] = "errdone"
              /\ wg' = IF DoneOnError THEN wg - 1 ELSE wg
              /\ pc' = [pc EXCEPT ![w] = "recv"]
              /\ UNCHANGED <<mainpc, chan, sent, closed, job, buf, filled, pos, holder, srcErr, failed, slots, writes, verdict, err>>

WorkerStep(w) == Recv(w) \/ Exit(w) \/ Lock(w) \/ ReadOK(w) \/ ReadFail(w) \/ Unlock(w) \/ Round(w) \/ Done(w) \/ ErrDone(w)
MainStep == MainAdd \/ MainOffer \/ MainSentAll \/ MainWait \/ MainDecide
Next == MainStep \/ \E w \in Workers : WorkerStep(w)
Spec == Init /\ [][Next]_vars /\ WF_vars(MainStep) /\ \A w \in Workers : WF_vars(WorkerStep(w))

(* ---------------- properties ---------------- *)
TypeOK == /\ mainpc \in {"add", "send", "wait", "decide", "returned"}
          /\ wg \in 0..S /\ sent \in 0..S /\ pos \in 0..(S * C + C)
          /\ \A w \in Workers : filled[w] \in 0..C
\* C08/C10: what is judged is exactly the set of consecutive samples, each once (no stale / zero /
\* interleaved buffer), whatever the schedule and the read sizes
JudgedSet == (mainpc \in {"decide", "returned"} /\ ~failed) =>
               /\ \A i \in 0..(S-1) : slots[i] # <<>> /\ IsSample(slots[i]) /\ writes[i] = 1
               /\ {slots[i] : i \in 0..(S-1)} = {Sample(k) : k \in 0..(S-1)}
               /\ pos = S * C
FreshOnly == \A i \in 0..(S-1) : slots[i] # <<>> => IsSample(slots[i])
NoNegativeWG == wg >= 0
MutexOK == \A w \in Workers : pc[w] \in {"read", "unlock"} /\ UseLock => holder = w
\* C09: a failing source is never answered with TRUE, and never silently
FaultMeansFalse == (mainpc = "returned" /\ failed) => (verdict = FALSE /\ err = TRUE)
NoFaultNoErr == (mainpc = "returned" /\ ~failed) => (verdict = TRUE /\ err = FALSE)
NeverReadsBeyond == pos <= S * C
\* decision only after the barrier
DecideAfterBarrier == mainpc \in {"decide", "returned"} => wg = 0
Terminates == <>(mainpc = "returned")
WorkersExit == <>[](\A w \in Workers : pc[w] = "exited")
\* slot ownership: a result slot changes only by the worker holding that job
SlotOwnership == [][\A i \in 0..(S-1) : slots'[i] # slots[i] => \E w \in Workers : pc[w] = "round" /\ job[w] = i]_vars

=============================================================================
