------------------------------- MODULE Purity -------------------------------
(***************************************************************************)
(* C18: every test invocation reads the caller's input and the package     *)
(* tables and writes only its own scratch.  Invocations are processes with *)
(* read / write footprints over {input, tables, scratch[loc]}; TLC checks  *)
(* non-interference for 2..3 concurrent invocations: every interleaving    *)
(* ends with every invocation's result equal to its solitary result and    *)
(* with input and tables unchanged.  The switches SharedScratch (a         *)
(* package-level scratch buffer) and WritesInput (an in-place pass over    *)
(* the caller's slice) are the negative controls: each breaks it.          *)
(* The same module emits execution plans (which tests run concurrently, on *)
(* shared or private inputs) that the Go driver realises.                  *)
(***************************************************************************)
EXTENDS Integers, Sequences, FiniteSets, TLC, Json

CONSTANTS P,              \* number of concurrent invocations
          SharedScratch, WritesInput,
          NPlans, Stride  \* plan generation
Procs == 1..P
Input0 == <<3, 5>>
Tables0 == 7
Kind(p) == 1 + (p % 2)
Solitary(p) == (Input0[1] + Kind(p)) * 2 + Input0[2] + Tables0

VARIABLES pc, input, tables, scratch, res, plan
vars == <<pc, input, tables, scratch, res, plan>>
Loc(p) == IF SharedScratch THEN 1 ELSE p

Init == /\ pc = [p \in Procs |-> "s1"] /\ input = Input0 /\ tables = Tables0
        /\ scratch = [l \in Procs |-> 0] /\ res = [p \in Procs |-> -1] /\ plan = -1
S1(p) == /\ pc[p] = "s1" /\ scratch' = [scratch EXCEPT ![Loc(p)] = input[1] + Kind(p)]
         /\ pc' = [pc EXCEPT ![p] = "s2"] /\ UNCHANGED <<input, tables, res, plan>>
S2(p) == /\ pc[p] = "s2" /\ scratch' = [scratch EXCEPT ![Loc(p)] = @ * 2 + input[2]]
         /\ input' = IF WritesInput THEN [input EXCEPT ![1] = scratch[Loc(p)]] ELSE input
         /\ pc' = [pc EXCEPT ![p] = "s3"] /\ UNCHANGED <<tables, res, plan>>
S3(p) == /\ pc[p] = "s3" /\ res' = [res EXCEPT ![p] = scratch[Loc(p)] + tables]
         /\ pc' = [pc EXCEPT ![p] = "done"] /\ UNCHANGED <<input, tables, scratch, plan>>

(* ---- plan generation (deterministic pseudo-random descriptors) ---- *)
M0 == 46337
Mix(a) == ((a % M0) * (a % M0) + 12345) % M0
H(seed, i) == Mix(Mix(Mix((i % M0) * 7919 + seed * 104 + 17) + (i \div M0)) + seed)
\* plans 0..16 are "storms": sixteen goroutines run the SAME test (j+1) on inputs of three different lengths, three rounds --
\* whatever a test keeps per call size or per call (a plan cache, a scratch matrix, a lazily filled table) is then hit
\* concurrently with different sizes; the remaining plans are random mixes
PlanOf(j) == IF j < 17 THEN
   [ev |-> "plan", id |-> j, goroutines |-> 16,
    tasks |-> [g \in 1..16 |-> [test |-> j + 1, shared |-> (g % 4 # 0), input |-> g % 3]], rounds |-> 3]
  ELSE LET G == <<2, 3, 4, 8, 16, 32, 64>>[1 + (H(j, 0) % 7)] IN
   [ev |-> "plan", id |-> j, goroutines |-> G,
    tasks |-> [g \in 1..G |-> [test |-> 1 + (H(j, g) % 17),          \* 1..15 registry tests, 16 = Round15, 17 = Round12
                               shared |-> (H(j + 1, g) % 2 = 0),     \* shared input slice or a private copy
                               input |-> H(j + 2, g) % 3]],          \* which of three inputs
    rounds |-> 1 + (H(j, 99) % 3)]
Emit == /\ \A p \in Procs : pc[p] = "done"
        /\ plan < NPlans - 1 /\ plan' = plan + 1
        /\ PrintT(ToJson(PlanOf(plan')))
        /\ UNCHANGED <<pc, input, tables, scratch, res>>
Next == (\E p \in Procs : S1(p) \/ S2(p) \/ S3(p)) \/ Emit
Spec == Init /\ [][Next]_vars

NonInterference == \A p \in Procs : pc[p] = "done" => res[p] = Solitary(p)
InputUntouched == input = Input0
TablesUntouched == tables = Tables0
=============================================================================
