---------------------------- MODULE TraceHistory ----------------------------
(***************************************************************************)
(* Channel T for the sequential side of C18 (History.tla).  One event per  *)
(* executed plan (a history of calls made by ONE fresh process):           *)
(*   {"ev":"hist","nclass":K,"plan":[class ids],"vals":[[..],..],          *)
(*    "solo":[[..],..],"panic":""}                                         *)
(* vals[i] lists, for the i-th call of the plan, the IEEE-754 bit patterns *)
(* of every result of every test / documented parameter / entry point on   *)
(* that call's input; solo[i] lists the same results obtained by a process *)
(* that did nothing else.  History!HistoryIndependent, restated on the     *)
(* observed values: vals[i] = solo[i].                                     *)
(***************************************************************************)
EXTENDS Integers, Sequences, TLC, Json
Trace == ndJsonDeserialize("trace.ndjson")
VARIABLE l
HistOK(e) ==
   /\ e.panic = ""
   /\ Len(e.plan) \in 1..4 /\ Len(e.vals) = Len(e.plan) /\ Len(e.solo) = Len(e.plan)
   /\ \A i \in 1..Len(e.plan) : e.plan[i] \in 1..e.nclass
   /\ \A i \in 1..Len(e.plan) : Len(e.solo[i]) >= 1 /\ e.vals[i] = e.solo[i]
Init == l = 1
Step == /\ l <= Len(Trace) /\ Trace[l].ev = "hist" /\ HistOK(Trace[l]) /\ l' = l + 1
Spec == Init /\ [][Step]_l
Accepted == TLCGet("stats").diameter - 1 = Len(Trace)
=============================================================================
