------------------------------- MODULE GenApa -------------------------------
(* Typed copy of Gen.tla (rdgen) for Apalache; the file system is represented by the sets of indices whose file has been
   opened / completed in the requested directory. Inductive invariant: every handed-out index is either held by exactly
   one writer or finished; the WaitGroup counts the unfinished ones. Proves FilesWhereTold at unbounded depth. *)
EXTENDS Integers, FiniteSets, Apalache

CONSTANTS
  \* @type: Int;
  S,
  \* @type: Int;
  W
None == 99
Writers == 1..W
VARIABLES
  \* @type: Str;
  mainpc,
  \* @type: Int;
  wg,
  \* @type: Int;
  chan,
  \* @type: Int;
  sent,
  \* @type: Int -> Str;
  wpc,
  \* @type: Int -> Int;
  wjob,
  \* @type: Set(Int);
  opened,
  \* @type: Set(Int);
  complete,
  \* @type: Bool;
  exited

CInitSmall == S = 4 /\ W = 3
CInitBig == S = 7 /\ W = 4

Init == /\ mainpc = "add" /\ wg = 0 /\ chan = None /\ sent = 0 /\ wpc = [w \in Writers |-> "recv"] /\ wjob = [w \in Writers |-> None]
        /\ opened = {} /\ complete = {} /\ exited = FALSE
MainAdd == mainpc = "add" /\ wg' = S /\ mainpc' = "send" /\ UNCHANGED <<chan, sent, wpc, wjob, opened, complete, exited>>
MainOffer == mainpc = "send" /\ chan = None /\ sent < S /\ chan' = sent /\ UNCHANGED <<mainpc, wg, sent, wpc, wjob, opened, complete, exited>>
MainSentAll == mainpc = "send" /\ chan = None /\ sent = S /\ mainpc' = "wait" /\ UNCHANGED <<wg, chan, sent, wpc, wjob, opened, complete, exited>>
MainExit == mainpc = "wait" /\ wg = 0 /\ mainpc' = "exit" /\ exited' = TRUE /\ UNCHANGED <<wg, chan, sent, wpc, wjob, opened, complete>>
Live == ~exited
Recv(w) == Live /\ wpc[w] = "recv" /\ chan /= None /\ wjob' = [wjob EXCEPT ![w] = chan] /\ chan' = None /\ sent' = sent + 1
           /\ wpc' = [wpc EXCEPT ![w] = "open"] /\ UNCHANGED <<mainpc, wg, opened, complete, exited>>
Open(w) == Live /\ wpc[w] = "open" /\ opened' = opened \union {wjob[w]} /\ wpc' = [wpc EXCEPT ![w] = "write"]
           /\ UNCHANGED <<mainpc, wg, chan, sent, wjob, complete, exited>>
WriteClose(w) == Live /\ wpc[w] = "write" /\ complete' = complete \union {wjob[w]} /\ wpc' = [wpc EXCEPT ![w] = "done"]
                 /\ UNCHANGED <<mainpc, wg, chan, sent, wjob, opened, exited>>
Done(w) == Live /\ wpc[w] = "done" /\ wg' = wg - 1 /\ wpc' = [wpc EXCEPT ![w] = "recv"] /\ UNCHANGED <<mainpc, chan, sent, wjob, opened, complete, exited>>
Next == MainAdd \/ MainOffer \/ MainSentAll \/ MainExit \/ \E w \in Writers : Recv(w) \/ Open(w) \/ WriteClose(w) \/ Done(w)

Busy == {w \in Writers : wpc[w] /= "recv"}
Held == {wjob[w] : w \in Busy}
Handed == {i \in 0..(S - 1) : i < sent}
Fin == Handed \ Held
InPhase(ph) == {wjob[w] : w \in {v \in Writers : wpc[v] = ph}}
TypeOK == /\ mainpc \in {"add", "send", "wait", "exit"} /\ wg \in 0..S /\ sent \in 0..S
          /\ chan \in (0..(S - 1)) \union {None}
          /\ wpc \in [Writers -> {"recv", "open", "write", "done"}]
          /\ wjob \in [Writers -> (0..(S - 1)) \union {None}]
          /\ opened \subseteq 0..(S - 1) /\ complete \subseteq 0..(S - 1)
          /\ S < None
IndInv ==
  /\ TypeOK
  /\ (exited <=> mainpc = "exit")
  /\ (mainpc = "add" => wg = 0 /\ sent = 0 /\ chan = None /\ Busy = {} /\ opened = {} /\ complete = {})
  /\ (chan /= None => chan = sent /\ mainpc = "send" /\ sent < S)
  /\ (mainpc \in {"wait", "exit"} => sent = S /\ chan = None)
  /\ Held \subseteq Handed
  /\ \A v1, v2 \in Busy : v1 /= v2 => wjob[v1] /= wjob[v2]
  /\ opened = Fin \union InPhase("write") \union InPhase("done")
  /\ complete = Fin \union InPhase("done")
  /\ (mainpc /= "add" => wg = S - Cardinality(Fin))
  /\ (mainpc = "exit" => wg = 0)
IndInit == /\ mainpc \in {"add", "send", "wait", "exit"} /\ wg \in 0..S /\ chan \in (0..(S - 1)) \union {None} /\ sent \in 0..S
           /\ wpc \in [Writers -> {"recv", "open", "write", "done"}] /\ wjob \in [Writers -> (0..(S - 1)) \union {None}]
           /\ opened \in SUBSET (0..(S - 1)) /\ complete \in SUBSET (0..(S - 1)) /\ exited \in BOOLEAN
           /\ IndInv
FilesWhereTold == exited => (opened = 0..(S - 1) /\ complete = opened)
=============================================================================
