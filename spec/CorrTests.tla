------------------------------ MODULE CorrTests ------------------------------
(***************************************************************************)
(* GM/T 0005-2021 binary derivative (5.8), autocorrelation (5.9) and       *)
(* cumulative sums (5.11).  Alg versions follow binary_derivative.go       *)
(* (k in-place passes over a private copy with shrinking range),           *)
(* autocorrelation.go and cumulative.go (Go's truncating integer division  *)
(* in the series limits, as in the NIST reference implementation).         *)
(***************************************************************************)
EXTENDS Integers, Sequences, FiniteSets, SequencesExt, BitSeq, RealFn

AbsI(a) == IF a < 0 THEN -a ELSE a
\* Go / C integer division: truncation toward zero (b > 0)
TruncDiv(a, b) == IF a >= 0 THEN a \div b ELSE -((-a) \div b)

(* ---------------- binary derivative ---------------- *)
DefBD(x, k) == 2 * Ones(DerivativeK(x, k)) - (Len(x) - k)
\* pass i (0-based): for j = 0 .. n-i-2 : b[j] = b[j] xor b[j+1], in place, left to right
AlgBDPass(b, n, i) == FoldLeft(LAMBDA c, j : [c EXCEPT ![j] = (c[j] + c[j + 1]) % 2], b, [t \in 1..(n - i - 1) |-> t])
AlgBD(x, k) == LET n == Len(x)
                   fin == FoldLeft(LAMBDA b, i : AlgBDPass(b, n, i), x, [t \in 1..k |-> t - 1])
               IN FoldLeft(LAMBDA s, j : IF fin[j] = 1 THEN s + 1 ELSE s - 1, 0, [t \in 1..(n - k) |-> t])
BDPQ(n, k, S) == LET v == RDiv(S, RSqrt(RMul(2, n - k))) IN [P |-> RErfc(RAbs(v)), Q |-> RDiv(RErfc(v), 2)]

(* ---------------- autocorrelation ---------------- *)
DefAC(x, d) == Cardinality({i \in 1..(Len(x) - d) : x[i] # x[i + d]})
AlgAC(x, d) == FoldLeft(LAMBDA a, i : IF x[i] # x[i + d] THEN a + 1 ELSE a, 0, [t \in 1..(Len(x) - d) |-> t])
\* V = 2 (A - (n-d)/2) / sqrt(n-d) ; P = erfc(|V|/sqrt 2) ; Q = erfc(V/sqrt 2)/2
ACPQ(n, d, A) == LET v == RDiv(RSub(RMul(2, A), n - d), RSqrt(RMul(2, n - d))) IN [P |-> RErfc(RAbs(v)), Q |-> RDiv(RErfc(v), 2)]

(* ---------------- cumulative sums ---------------- *)
Walk(x) == [i \in 1..Len(x) |-> 2 * x[i] - 1]
\* maximum absolute partial sum of the +-1 walk over x (forward) or over its reversal (backward)
DefCusumZ(x, forward) ==
   LET y == IF forward THEN x ELSE Rev(x)
       st == FoldLeft(LAMBDA s, b : LET t == s.sum + 2 * b - 1 IN [sum |-> t, z |-> IF AbsI(t) > s.z THEN AbsI(t) ELSE s.z],
                      [sum |-> 0, z |-> 0], y)
   IN st.z
\* the Go loop indexes bits[i] or bits[n-1-i]
AlgCusumZ(x, forward) ==
   LET n == Len(x)
       st == FoldLeft(LAMBDA s, i : LET b == IF forward THEN x[i + 1] ELSE x[(n - 1 - i) + 1]
                                        t == IF b = 1 THEN s.sum + 1 ELSE s.sum - 1
                                    IN [sum |-> t, z |-> IF AbsI(t) > s.z THEN AbsI(t) ELSE s.z],
                      [sum |-> 0, z |-> 0], [t \in 1..n |-> t - 1])
   IN st.z
\* P = 1 - sum_{i=lo1}^{hi} [Phi((4i+1)Z/sqrt n) - Phi((4i-1)Z/sqrt n)] + sum_{i=lo2}^{hi} [Phi((4i+3)Z/sqrt n) - Phi((4i+1)Z/sqrt n)]
CusumLo1(n, Z) == TruncDiv(TruncDiv(-n, Z) + 1, 4)
CusumLo2(n, Z) == TruncDiv(TruncDiv(-n, Z) - 3, 4)
CusumHi(n, Z)  == TruncDiv(TruncDiv(n, Z) - 1, 4)
PhiAt(c, Z, sq) == RPhi(RDiv(RMul(c, Z), sq))
\* Terms whose arguments lie beyond 50 standard deviations are below 1e-500 each (there are at most n of them), so the
\* series is evaluated for |4i| <= 50 sqrt(n)/Z + 8 only; for walks with a tiny excursion (alternating bits: Z = 1) this
\* keeps the evaluation at O(sqrt n) terms instead of O(n).
CusumCut(n, Z) == (RCeil(RDiv(RMul(50, RSqrt(n)), Z)) \div 4) + 2
CusumPQ(n, Z) ==
   LET sq == RSqrt(n)
       cut == CusumCut(n, Z)
       clampLo(v) == IF v < -cut THEN -cut ELSE v
       clampHi(v) == IF v > cut THEN cut ELSE v
       rng(lo0, hi0) == LET lo == clampLo(lo0)  hi == clampHi(hi0) IN IF hi < lo THEN <<>> ELSE [t \in 1..(hi - lo + 1) |-> lo + t - 1]
       s1 == FoldLeft(LAMBDA a, i : RAdd(a, RSub(PhiAt(4 * i + 1, Z, sq), PhiAt(4 * i - 1, Z, sq))), "0", rng(CusumLo1(n, Z), CusumHi(n, Z)))
       s2 == FoldLeft(LAMBDA a, i : RAdd(a, RSub(PhiAt(4 * i + 3, Z, sq), PhiAt(4 * i + 1, Z, sq))), "0", rng(CusumLo2(n, Z), CusumHi(n, Z)))
       p == RAdd(RSub(1, s1), s2)
   IN [P |-> p, Q |-> p]

BDResult(x, k) == BDPQ(Len(x), k, DefBD(x, k))
ACResult(x, d) == ACPQ(Len(x), d, DefAC(x, d))
CusumResult(x, forward) == CusumPQ(Len(x), DefCusumZ(x, forward))
BDAgrees(x, k) == AlgBD(x, k) = DefBD(x, k)
ACAgrees(x, d) == AlgAC(x, d) = DefAC(x, d)
CusumAgrees(x, f) == AlgCusumZ(x, f) = DefCusumZ(x, f)
=============================================================================
