#!/usr/bin/env python3
"""Prints the markdown table of seeded changes (/verif/seeded/*/meta.json): what each needs and which checks catch it."""
import glob, json, os
VERIF = os.path.dirname(os.path.dirname(os.path.abspath(__file__)))
print("| seeded change | property | what | needs | caught by (quick tier) |")
print("|---|---|---|---|---|")
for d in sorted(glob.glob(os.path.join(VERIF, "seeded", "*"))):
    mp = os.path.join(d, "meta.json")
    if not os.path.exists(mp):
        continue
    m = json.load(open(mp))
    cb = ", ".join("%s%s" % (c, "" if ok else " (missed)") for c, ok in sorted(m.get("caught_by", {}).items()))
    hist = m.get("history", "")
    print("| `%s` | %s | %s | %s | %s%s |" % (os.path.basename(d), m["property"], (m.get("what") or "").replace("|", "/")[:220], (m.get("needs") or "").replace("|", "/")[:200], cb, (" — " + hist) if hist else ""))
