"""Shared machinery for the /verif checks: scratch handling, TLC runs, Go harness builds,
evidence, known findings and the verdict rule.

Verdict rule (DESIGN.md 3.3):
  exit 0  property held on everything explored (KNOWN-FINDING lines allowed)
  exit 1  + "VIOLATION property=<id> replay=<path>"  only for real-code behaviour contradicting the spec
  exit 2  + "ERROR ..." for infrastructure trouble (TLC/Java/Go build failure, OOM, timeout, parse error)
"""
import atexit, hashlib, json, os, re, shutil, subprocess, sys, tempfile, time

VERIF = os.path.dirname(os.path.dirname(os.path.abspath(__file__)))
REPO = os.environ.get("VERIF_REPO", "/repo")
SPEC = os.path.join(VERIF, "spec")
BUILD = os.path.join(VERIF, "build")
HARNESS = os.path.join(VERIF, "harness")
EVID = os.path.join(VERIF, "evidence")
REPLAYS = os.path.join(VERIF, "replays")
TLAJAR = "/opt/veriftools/tla/tla2tools.jar"
CMJAR = "/opt/veriftools/tla/CommunityModules-deps.jar"
NCPU = os.cpu_count() or 4

GOENV = dict(os.environ, GOFLAGS="-mod=mod", GOPROXY="off", GOSUMDB="off", GOTOOLCHAIN="local",
             CGO_ENABLED=os.environ.get("CGO_ENABLED", "1"))


class InfraError(Exception):
    pass


def die_infra(msg):
    print("ERROR " + msg, flush=True)
    sys.exit(2)


# ---------------------------------------------------------------- scratch
_scratch_dirs = []


def scratch(prefix="vf"):
    d = tempfile.mkdtemp(prefix=prefix + ".", dir=os.environ.get("VERIF_TMP", "/tmp"))
    _scratch_dirs.append(d)
    return d


def _cleanup():
    for d in _scratch_dirs:
        shutil.rmtree(d, ignore_errors=True)


atexit.register(_cleanup)


def seed():
    try:
        return int(os.environ.get("VERIF_SEED", "1"))
    except ValueError:
        return 1


def tier(argv_tier=None):
    t = argv_tier or os.environ.get("VERIF_TIER") or "quick"
    return "thorough" if t.startswith("t") else "quick"


# ---------------------------------------------------------------- RealFn
def ensure_realfn():
    src = os.path.join(SPEC, "RealFn.java")
    cls = os.path.join(BUILD, "RealFn.class")
    os.makedirs(BUILD, exist_ok=True)
    if not os.path.exists(cls) or os.path.getmtime(cls) < os.path.getmtime(src):
        r = subprocess.run(["javac", "-cp", TLAJAR, "-d", BUILD, src], capture_output=True, text=True)
        if r.returncode != 0:
            raise InfraError("javac RealFn.java failed: " + r.stderr[-2000:])
    return cls


# ---------------------------------------------------------------- TLC
class TLCResult:
    def __init__(self):
        self.rc = None
        self.out = ""
        self.generated = 0
        self.distinct = 0
        self.depth = 0
        self.json = []        # decoded PrintT(ToJson(..)) lines
        self.violated = None  # name of violated invariant/property, if any
        self.error_kind = None
        self.wall = 0.0
        self.coverage = {}


_RE_STATS = re.compile(r"^(\d[\d,]*) states generated, (\d[\d,]*) distinct states found", re.M)
_RE_DEPTH = re.compile(r"depth of the complete state graph search is (\d+)")
_RE_SIMSTATS = re.compile(r"The number of states generated: (\d[\d,]*)")


def prepare_spec_dir(extra_files=None):
    d = scratch("tlc")
    ensure_realfn()
    for f in os.listdir(SPEC):
        if f.endswith(".tla") or f.endswith(".cfg"):
            shutil.copy(os.path.join(SPEC, f), d)
    shutil.copy(os.path.join(BUILD, "RealFn.class"), d)
    for name, content in (extra_files or {}).items():
        with open(os.path.join(d, name), "w") as fh:
            fh.write(content)
    return d


def run_tlc(module, cfg, workers=None, timeout=600, extra_files=None, simulate=None, depth=None,
            tlc_args=None, specdir=None, deque=False, heap="8g", coverage=False):
    """Run TLC on spec/<module>.tla with config text `cfg` (or a .cfg file name in spec/).
    Returns TLCResult; never raises on a property violation (caller decides), raises InfraError otherwise."""
    d = specdir or prepare_spec_dir(extra_files)
    if specdir and extra_files:
        for name, content in extra_files.items():
            with open(os.path.join(d, name), "w") as fh:
                fh.write(content)
    if "\n" in cfg or " " in cfg:
        cfgname = "run_%s_%d.cfg" % (module, int(time.time() * 1e6) % 10**9)
        with open(os.path.join(d, cfgname), "w") as fh:
            fh.write(cfg)
    else:
        cfgname = cfg
    meta = tempfile.mkdtemp(prefix="meta.", dir=d)
    w = workers or NCPU
    cmd = ["java", "-Xss512m", "-Xms128m", "-Xmx" + heap, "-XX:+UseParallelGC", "-XX:ParallelGCThreads=4"]
    if deque:
        cmd.append("-Dtlc2.tool.queue.IStateQueue=StateDeque")
    cmd += ["-cp", TLAJAR + ":" + CMJAR + ":.", "tlc2.TLC", "-metadir", meta, "-workers", str(w),
            "-config", cfgname, "-nowarning"]
    if simulate:
        cmd += ["-simulate", simulate]
        if depth:
            cmd += ["-depth", str(depth)]
    if coverage:
        cmd += ["-coverage", "1"]
    cmd += (tlc_args or [])
    cmd.append(module + ".tla")
    t0 = time.time()
    env = dict(os.environ)
    env.pop("JAVA_TOOL_OPTIONS", None)
    try:
        p = subprocess.run(cmd, cwd=d, capture_output=True, text=True, errors="replace", timeout=timeout, env=env)
    except subprocess.TimeoutExpired:
        subprocess.run(["pkill", "-f", meta], capture_output=True)
        raise InfraError("TLC timeout after %ds on %s" % (timeout, module))
    finally:
        shutil.rmtree(meta, ignore_errors=True)
    r = TLCResult()
    r.wall = time.time() - t0
    r.rc = p.returncode
    r.out = "\n".join(ln for ln in (p.stdout + p.stderr).splitlines() if not ln.startswith("Loading ") and not ln.startswith("Parsing file") and not ln.startswith("Semantic processing") and not ln.startswith("Linting of"))
    m = None
    for m in _RE_STATS.finditer(r.out):
        pass
    if m:
        r.generated = int(m.group(1).replace(",", ""))
        r.distinct = int(m.group(2).replace(",", ""))
    m = _RE_DEPTH.search(r.out)
    if m:
        r.depth = int(m.group(1))
    if simulate:
        m = _RE_SIMSTATS.search(r.out)
        if m:
            r.generated = int(m.group(1).replace(",", ""))
            r.distinct = r.generated
    for line in p.stdout.splitlines():
        if line.startswith('"{') or line.startswith('"['):
            try:
                r.json.append(json.loads(json.loads(line)))
            except Exception:
                pass
    m = re.search(r"Invariant (\S+) is violated", r.out)
    if m:
        r.violated = m.group(1)
    m2 = re.search(r"Temporal propert[^\n]* violated|Action property (\S+) is violated|Deadlock reached", r.out)
    if m2 and not r.violated:
        r.violated = m2.group(0)
    if re.search(r"postcondition.*(violated|false)|POSTCONDITION.*(violated|false)", r.out, re.I):
        r.violated = r.violated or "POSTCONDITION"
    if re.search(r"Assumption .* is false", r.out):
        r.violated = r.violated or "ASSUME"
    if r.rc != 0 and not r.violated:
        if "OutOfMemoryError" in r.out:
            r.error_kind = "oom"
        elif "StackOverflowError" in r.out:
            r.error_kind = "stackoverflow"
        else:
            r.error_kind = "tlc-error"
    if coverage:
        for mm in re.finditer(r"<(\w+) line \d+, col \d+ to line \d+, col \d+ of module (\w+)>: (\d+):(\d+)", r.out):
            r.coverage[mm.group(1)] = r.coverage.get(mm.group(1), 0) + int(mm.group(4))
    return r


def tlc_ok(r, what):
    """Model-level run must be clean; anything else is infrastructure (exit 2), never a VIOLATION."""
    if r.rc != 0 or r.violated or r.error_kind:
        tail = "\n".join(r.out.splitlines()[-40:])
        raise InfraError("%s: TLC rc=%s violated=%s kind=%s\n%s" % (what, r.rc, r.violated, r.error_kind, tail))
    return r


# ---------------------------------------------------------------- Go harness
_built = {}


def go_build(pkg="./cmd/hz", race=False, tags="verif", out=None, goarch=None):
    """Build the harness binary against /repo's current working tree (replace directive).
    goarch="386": the same driver for a platform whose `int` has 32 bits (runs on this machine)."""
    key = (pkg, race, tags, goarch)
    if key in _built and os.path.exists(_built[key]):
        return _built[key]
    d = scratch("gobin")
    outp = out or os.path.join(d, "hz" + ("-race" if race else "") + ("-" + goarch if goarch else ""))
    hdir = HARNESS
    if os.path.realpath(REPO) != "/repo":
        # rehearsal against a scratch worktree (VERIF_REPO): build a copy of the harness whose replace
        # directive points there; registered checks always use /repo itself
        hdir = os.path.join(d, "harness")
        shutil.copytree(HARNESS, hdir)
        gm = os.path.join(hdir, "go.mod")
        with open(gm) as fh:
            txt = fh.read().replace("=> /repo", "=> " + os.path.realpath(REPO))
        with open(gm, "w") as fh:
            fh.write(txt)
    gosum = os.path.join(REPO, "go.sum")
    if os.path.exists(gosum):
        shutil.copy(gosum, os.path.join(hdir, "go.sum"))
    cmd = ["go", "build", "-tags", tags, "-o", outp]
    if race:
        cmd.append("-race")
    cmd.append(pkg)
    benv = dict(GOENV)
    if goarch:
        benv["GOARCH"] = goarch
        benv["CGO_ENABLED"] = "0"
    p = subprocess.run(cmd, cwd=hdir, capture_output=True, text=True, env=benv, timeout=900)
    if p.returncode != 0:
        raise InfraError("go build failed (this is a build problem, not a verdict):\n" + (p.stdout + p.stderr)[-3000:])
    _built[key] = outp
    return outp


def can_run_386(hz386):
    """Some kernels refuse 32-bit executables; then the 32-bit passes are skipped (recorded in the evidence)."""
    try:
        p = subprocess.run([hz386], capture_output=True, text=True, timeout=30)
        return "usage" in (p.stderr + p.stdout)
    except OSError:
        return False


def can_drop_privileges():
    """True when this process is root and an unprivileged account exists to run a tool under."""
    if os.geteuid() != 0:
        return False
    try:
        import pwd
        pwd.getpwnam("nobody")
        return True
    except (ImportError, KeyError):
        return False


def run_bin(binpath, args, stdin=None, timeout=600, env=None, cwd=None, taskset=None, user=None, nofile=None):
    """nofile: RLIMIT_NOFILE (soft = hard) for the child, as a container or a service unit would set it."""
    cmd = [binpath] + list(args)
    if nofile and shutil.which("prlimit"):
        cmd = ["prlimit", "--nofile=%d:%d" % (nofile, nofile)] + cmd      # without util-linux the limit is simply not applied
    if taskset:
        cmd = ["taskset", "-c", taskset] + cmd
    e = dict(GOENV)
    e.update(env or {})
    extra = {}
    if user:
        import pwd
        pw = pwd.getpwnam(user)
        extra = {"user": pw.pw_uid, "group": pw.pw_gid, "extra_groups": []}
        e["HOME"] = "/tmp"
    try:
        p = subprocess.run(cmd, input=stdin, capture_output=True, text=True, errors="replace", timeout=timeout, env=e, cwd=cwd, **extra)
    except subprocess.TimeoutExpired as ex:
        class R:
            pass
        r = R()
        r.returncode = -9
        r.stdout = (ex.stdout or b"").decode("utf8", "replace") if isinstance(ex.stdout, bytes) else (ex.stdout or "")
        r.stderr = (ex.stderr or b"").decode("utf8", "replace") if isinstance(ex.stderr, bytes) else (ex.stderr or "")
        r.timed_out = True
        return r
    p.timed_out = False
    return p


def read_ndjson(path):
    out = []
    with open(path) as fh:
        for line in fh:
            line = line.strip()
            if line:
                out.append(json.loads(line))
    return out


def write_ndjson(path, rows):
    with open(path, "w") as fh:
        for r in rows:
            fh.write(json.dumps(r, separators=(",", ":")) + "\n")


# ---------------------------------------------------------------- findings / verdicts
def load_known():
    p = os.path.join(VERIF, "known_findings.json")
    if not os.path.exists(p):
        return []
    with open(p) as fh:
        return json.load(fh).get("findings", [])


def match_known(prop, facts):
    """A violation is 'known' only if a kind=known entry for this property matches every key of its
    `match` object against `facts` (string equality, or regex when the pattern starts with 're:')."""
    for f in load_known():
        if f.get("property") != prop or f.get("kind") != "known":
            continue
        ok = True
        for k, v in f.get("match", {}).items():
            fv = facts.get(k)
            if isinstance(v, str) and v.startswith("re:"):
                if fv is None or not re.search(v[3:], str(fv)):
                    ok = False
            elif str(fv) != str(v):
                ok = False
        if ok:
            return f
    return None


class Run:
    """One check run for one property: collects coverage, violations, writes evidence, exits."""

    def __init__(self, prop, tier_, level="model_checking"):
        self.prop = prop
        self.tier = tier_
        self.level = level
        self.t0 = time.time()
        self.states = 0
        self.transitions = 0
        self.traces = 0
        self.evaluations = 0
        self.nontrivial = set()
        self.nontrivial_count = 0
        self.samples = []
        self.violations = []
        self.known = []
        self.extra = {}
        self.assumptions = []
        self.rule = ""
        self.trusted = ["TLC 1.8.0 (tla2tools.jar)", "RealFn.class real-number override (BigDecimal, 60 digits), axioms in RealFnAxioms.tla",
                        "Go toolchain / runtime", "the harness drivers under /verif/harness"]
        self.explanation = ""
        self.exhaustive = False
        self.configs = []

    def add_tlc(self, r, name=None):
        self.states += r.distinct
        self.transitions += r.generated
        self.configs.append({"config": name or "?", "distinct": r.distinct, "generated": r.generated,
                             "depth": r.depth, "wall_s": round(r.wall, 2)})

    def sample(self, s, cap=6):
        if len(self.samples) < cap:
            self.samples.append(s)

    def nontriv(self, key):
        self.nontrivial.add(key if isinstance(key, (str, int)) else json.dumps(key, sort_keys=True))

    def violation(self, facts, replay_obj):
        """Record a confirmed violation of the real code. facts: dict used for known-finding matching."""
        k = match_known(self.prop, facts)
        if k:
            self.known.append((k, facts))
            return False
        os.makedirs(REPLAYS, exist_ok=True)
        h = hashlib.sha1(json.dumps(replay_obj, sort_keys=True, default=str).encode()).hexdigest()[:12]
        path = os.path.join(REPLAYS, "%s-%s.json" % (self.prop, h))
        with open(path, "w") as fh:
            json.dump({"property": self.prop, "facts": facts, "replay": replay_obj}, fh, indent=1, default=str)
        self.violations.append((facts, path))
        return True

    def finish(self):
        wall = time.time() - self.t0
        nt = self.nontrivial_count + len(self.nontrivial)
        cov = {
            "states": int(self.states), "transitions": int(self.transitions),
            "traces_validated_against_impl": int(self.traces),
            "evaluations": int(self.evaluations), "distinct_nontrivial": int(nt),
            "rule": self.rule, "samples": self.samples[:8] or ["(none)"],
            "tlc_configs": self.configs, "trusted_base": self.trusted,
            "explanation": self.explanation, "exhaustive": bool(self.exhaustive),
            "known_findings_reported": len(self.known),
        }
        cov.update(self.extra)
        ev = {"property_id": self.prop, "tier": self.tier, "seed": seed(), "level": self.level,
              "coverage": cov, "assumptions": self.assumptions, "wall_s": round(wall, 2),
              "violations": len(self.violations)}
        os.makedirs(EVID, exist_ok=True)
        with open(os.path.join(EVID, self.prop + ".json"), "w") as fh:
            json.dump(ev, fh, indent=1, default=str)
        seen = set()
        for k, facts in self.known:
            key = k.get("id", json.dumps(k.get("match", {}), sort_keys=True))
            if key in seen:
                continue
            seen.add(key)
            print("KNOWN-FINDING: property=%s %s" % (self.prop, k.get("what", key)), flush=True)
        if self.violations:
            shown = set()
            for facts, path in self.violations[:20]:
                if path in shown:
                    continue
                shown.add(path)
                print("VIOLATION property=%s replay=%s" % (self.prop, path), flush=True)
                print("  facts: " + json.dumps(facts, default=str)[:600], flush=True)
            sys.exit(1)
        print("OK property=%s tier=%s states=%d transitions=%d traces=%d evaluations=%d nontrivial=%d wall=%.1fs" % (
            self.prop, self.tier, self.states, self.transitions, self.traces, self.evaluations, nt, wall), flush=True)
        sys.exit(0)


# ---------------------------------------------------------------- trace validation (channel T)
TRACE_CFG = "SPECIFICATION Spec\nPOSTCONDITION Accepted\nCHECK_DEADLOCK FALSE\n"


def _validate_chunk(module, chunk, timeout, cfg, max_rej, stateful, resync=None):
    """Validate one list of events with one or more TLC runs.
    Stateless traces (each event judged on its own) continue after a rejected event;
    stateful traces stop at the first rejection."""
    rejected = []
    accepted = 0
    gen = 0
    rest = chunk
    while rest:
        d = prepare_spec_dir()
        write_ndjson(os.path.join(d, "trace.ndjson"), rest)
        r = run_tlc(module, cfg, workers=1, timeout=timeout, specdir=d, heap="2g")
        shutil.rmtree(d, ignore_errors=True)
        if r.error_kind or (r.rc != 0 and not r.violated):
            raise InfraError("trace validation %s: TLC error\n%s" % (module, "\n".join(r.out.splitlines()[-30:])))
        n_ok = max(r.depth - 1, 0)
        gen += r.generated
        if r.rc == 0 and not r.violated:
            if n_ok != len(rest):
                raise InfraError("trace validation %s: accepted but depth %d != %d" % (module, n_ok, len(rest)))
            accepted += n_ok
            break
        if n_ok >= len(rest):
            raise InfraError("trace validation %s: rejected with full depth\n%s" % (module, "\n".join(r.out.splitlines()[-30:])))
        accepted += n_ok
        rejected.append(rest[n_ok])
        if stateful or len(rejected) >= max_rej:
            break
        if resync:
            # job-structured trace: drop the rest of the rejected job, resume at the next job start
            j = n_ok + 1
            while j < len(rest) and not resync(rest[j]):
                j += 1
            # the accepted prefix may contain the beginning of the rejected job; it is not re-counted
            rest = rest[j:]
        else:
            rest = rest[n_ok + 1:]
    return accepted, rejected, gen


def validate_trace(module, events, nsplit=None, timeout=900, cfg=TRACE_CFG, max_rej=3, stateful=False, groups=None, resync=None):
    """Channel T: TLC validates recorded events against spec/<module>.tla (Spec, Accepted).
    Returns (accepted_count, rejected_events, states_generated)."""
    from concurrent.futures import ThreadPoolExecutor
    if not events and not groups:
        return 0, [], 0
    if groups is not None:
        # groups: list of event lists (one per job); keep jobs whole, deal them round-robin
        k = max(1, min(nsplit or NCPU, len(groups)))
        chunks = [[e for g in groups[i::k] for e in g] for i in range(k)]
        chunks = [c for c in chunks if c]
    elif stateful:
        chunks = [events]
    else:
        k = max(1, min(nsplit or NCPU, len(events)))
        chunks = [events[i::k] for i in range(k)]
    with ThreadPoolExecutor(max_workers=len(chunks)) as ex:
        futs = [ex.submit(_validate_chunk, module, c, timeout, cfg, max_rej, stateful, resync) for c in chunks]
        res = [f.result() for f in futs]
    return sum(a for a, _, _ in res), [e for _, rj, _ in res for e in rj], sum(g for _, _, g in res)


# ---------------------------------------------------------------- workflow driver pool
def run_hz_jobs(hz, command, jobs, nproc=None, timeout=1200, taskset=None, env=None, key="jobs"):
    """Split `jobs` over several hz processes; returns the result rows in job order (by "id")."""
    from concurrent.futures import ThreadPoolExecutor
    if not jobs:
        return []
    k = max(1, min(nproc or NCPU, len(jobs)))
    tmp = scratch("hzjobs")
    parts = [jobs[i::k] for i in range(k)]

    def one(idx):
        jp = os.path.join(tmp, "job%d.json" % idx)
        op = os.path.join(tmp, "out%d.ndjson" % idx)
        with open(jp, "w") as fh:
            json.dump({key: parts[idx]}, fh)
        p = run_bin(hz, [command, jp, op], timeout=timeout, taskset=taskset, env=env)
        rows = read_ndjson(op) if os.path.exists(op) else []
        return p, rows

    with ThreadPoolExecutor(max_workers=k) as ex:
        res = list(ex.map(one, range(k)))
    rows = {}
    crashed = []
    for idx, (p, rs) in enumerate(res):
        for r in rs:
            rows[r["id"]] = r
        if p.returncode != 0 or len(rs) != len(parts[idx]):
            # the process died (worker panic, runtime fatal error, watchdog): the first job without a row is the culprit
            done = {r["id"] for r in rs}
            missing = [j for j in parts[idx] if j["id"] not in done]
            crashed.append({"rc": p.returncode, "timed_out": getattr(p, "timed_out", False),
                            "stderr": (p.stderr or "")[-3000:], "first_missing": missing[0] if missing else None,
                            "missing": [j["id"] for j in missing]})
    shutil.rmtree(tmp, ignore_errors=True)
    return rows, crashed


def coverage_audit(run, module, cfgs, expected_actions, timeout=1800):
    """Vacuity guard: run the given configs with -coverage 1 and require every named action to be taken at
    least once across them (an action never taken means its properties were never exercised)."""
    total = {}
    for c in cfgs:
        r = tlc_ok(run_tlc(module, c, coverage=True, timeout=timeout), "coverage audit " + module)
        for k, v in r.coverage.items():
            total[k] = total.get(k, 0) + v
    missing = [a for a in expected_actions if total.get(a, 0) == 0]
    if missing:
        raise InfraError("vacuity: actions never taken in %s: %s" % (module, missing))
    run.extra.setdefault("action_coverage", {})[module] = {a: total.get(a, 0) for a in expected_actions}


def apalache_inductive(run, module, cinit, init="Init", indinit="IndInit", indinv="IndInv", safety=(), timeout=1800):
    """Unbounded-depth safety for fixed constants with Apalache: Init => IndInv (length 0), IndInv /\\ Next => IndInv'
    (length 1 from IndInit), IndInv => each safety property (length 0 from IndInit). A failed or timed-out obligation is
    an infrastructure error of the model (exit 2), never a verdict about the code."""
    d = prepare_spec_dir()
    obligations = [("%s => %s" % (init, indinv), ["--init=" + init, "--inv=" + indinv, "--length=0"]),
                   ("%s /\\ Next => %s'" % (indinv, indinv), ["--init=" + indinit, "--inv=" + indinv, "--length=1"])]
    for sname in safety:
        obligations.append(("%s => %s" % (indinv, sname), ["--init=" + indinit, "--inv=" + sname, "--length=0"]))
    done = []
    for name, args in obligations:
        t0 = time.time()
        try:
            p = subprocess.run(["apalache-mc", "check", "--cinit=" + cinit, "--out-dir=" + os.path.join(d, "_apalache-out")] + args + [module + ".tla"],
                               cwd=d, capture_output=True, text=True, timeout=timeout)
        except subprocess.TimeoutExpired:
            raise InfraError("apalache timeout on obligation %s" % name)
        if "EXITCODE: OK" not in p.stdout:
            raise InfraError("apalache obligation failed: %s\n%s" % (name, "\n".join(p.stdout.splitlines()[-12:])))
        done.append({"obligation": name, "wall_s": round(time.time() - t0, 1)})
    run.extra.setdefault("apalache_inductive", []).append({"module": module, "constants": cinit, "obligations": done})
    shutil.rmtree(d, ignore_errors=True)


def tlaps_check(run, module, timeout=900):
    """Discharge the proofs of spec/<module>.tla with tlapm. A proof that does not go through is a problem of the
    specification (exit 2), never a verdict about the code."""
    d = scratch("tlaps")
    shutil.copy(os.path.join(SPEC, module + ".tla"), d)
    t0 = time.time()
    try:
        p = subprocess.run(["tlapm", "--threads", str(min(8, NCPU)), module + ".tla"], cwd=d, capture_output=True, text=True, timeout=timeout)
    except subprocess.TimeoutExpired:
        raise InfraError("tlapm timeout on " + module)
    out = p.stdout + p.stderr
    m = re.search(r"All (\d+) obligations? proved", out)
    if not m:
        raise InfraError("tlapm did not prove %s:\n%s" % (module, "\n".join(out.splitlines()[-15:])))
    run.extra.setdefault("tlaps", []).append({"module": module, "obligations": int(m.group(1)), "discharged": int(m.group(1)), "wall_s": round(time.time() - t0, 1)})
    shutil.rmtree(d, ignore_errors=True)
