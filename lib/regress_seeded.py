#!/usr/bin/env python3
"""Regression sweep: every filed seeded change is applied to a scratch worktree of /repo again and the checks that
reported it are re-run against that worktree (VERIF_REPO); a check that no longer reports it is listed.

usage: lib/regress_seeded.py [label ...] [--stream i/n]      (default: all of /verif/seeded)
"""
import json, os, shutil, subprocess, sys, time
VERIF = os.path.dirname(os.path.dirname(os.path.abspath(__file__)))
ENV = dict(os.environ, GOFLAGS="-mod=mod", GOPROXY="off", GOSUMDB="off", GOTOOLCHAIN="local")


def sh(cmd, cwd=None, env=None, timeout=6000):
    p = subprocess.run(cmd, shell=True, cwd=cwd, env=env or ENV, capture_output=True, text=True, errors="replace", timeout=timeout)
    return p.returncode, p.stdout + p.stderr


def main():
    args = [a for a in sys.argv[1:] if not a.startswith("--")]
    stream = None
    for i, a in enumerate(sys.argv):
        if a == "--stream":
            k, n = sys.argv[i + 1].split("/")
            stream = (int(k), int(n))
            args = [x for x in args if x != sys.argv[i + 1]]
    labels = args or sorted(os.listdir(os.path.join(VERIF, "seeded")))
    if stream:
        labels = labels[stream[0]::stream[1]]
    head = sh("git -C %s rev-parse --short HEAD" % VERIF)[1].strip()
    lost = []
    for lab in labels:
        sd = os.path.join(VERIF, "seeded", lab)
        mp = os.path.join(sd, "meta.json")
        if not os.path.exists(mp):
            continue
        meta = json.load(open(mp))
        checks = [c for c, v in meta.get("caught_by", {}).items() if v] or [meta["property"]]
        own = meta["property"]
        if own in checks:
            checks = [own]          # the property's own check is the one that matters; others only when it never caught it
        wt = "/tmp/regress/wt_%s" % lab
        shutil.rmtree(wt, ignore_errors=True)
        os.makedirs("/tmp/regress", exist_ok=True)
        rc, out = sh("git -C /repo worktree add -q --detach %s HEAD" % wt)
        if rc:
            print(lab, "worktree failed", out[-200:], flush=True); continue
        try:
            rc, out = sh("git apply %s" % os.path.join(sd, "patch.diff"), cwd=wt)
            if rc:
                print(lab, "APPLY FAILED", out[-200:], flush=True); continue
            res = {}
            for c in checks:
                t0 = time.time()
                rc, out = sh("./check %s --tier quick" % c, cwd=VERIF, env=dict(ENV, VERIF_REPO=wt))
                res[c] = {"rc": rc, "wall_s": int(time.time() - t0)}
                sh("git checkout -- evidence/%s.json" % c, cwd=VERIF)
            meta["regression"] = {"verif_commit": head, "checks": res}
            json.dump(meta, open(mp, "w"), indent=1, ensure_ascii=False)
            ok = all(v["rc"] == 1 for v in res.values())
            if not ok:
                lost.append(lab)
            print(lab, "OK" if ok else "LOST", res, flush=True)
        finally:
            sh("git -C /repo worktree remove --force %s" % wt)
            shutil.rmtree(wt, ignore_errors=True)
    print("lost:", lost, flush=True)


main()
