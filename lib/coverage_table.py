#!/usr/bin/env python3
"""Prints the table of DESIGN 10.9 from the committed evidence files."""
import glob, json, os
VERIF = os.path.dirname(os.path.dirname(os.path.abspath(__file__)))
STD = {"states", "transitions", "traces_validated_against_impl", "evaluations", "distinct_nontrivial", "rule", "samples", "tlc_configs", "trusted_base",
       "explanation", "exhaustive", "known_findings_reported", "driver_job_wall_s", "threshold_ranges", "history_classes", "history_results_per_call",
       "special_environment_scenarios", "upper_range_probes", "processor_count_variants", "light_inputs"}
print("| property | level | TLC configs | model states | traces / vectors bound to the code | evaluations | distinct non-trivial | wall | extras |")
print("|---|---|---|---|---|---|---|---|---|")
for f in sorted(glob.glob(os.path.join(VERIF, "evidence", "C*.json"))):
    e = json.load(open(f))
    c = e["coverage"]
    extras = []
    for k, v in c.items():
        if k in STD:
            continue
        if isinstance(v, dict):
            if k == "action_coverage":
                extras.append("action_coverage=%d actions audited" % sum(len(x) for x in v.values()))
            else:
                extras.append("%s=%s" % (k, json.dumps(v)))
        elif isinstance(v, list):
            if k == "apalache_inductive":
                extras.append("apalache_inductive=%d obligations" % sum(len(x.get("obligations", [])) if isinstance(x, dict) else 1 for x in v))
            elif k == "tlaps":
                extras.append("tlaps=%s" % len(v))
            else:
                extras.append("%s=%d" % (k, len(v)))
        else:
            extras.append("%s=%s" % (k, v))
    print("| %s | %s | %d | %d | %d | %d | %d | %d s | %s |" % (e["property_id"], e["level"], len(c.get("tlc_configs", [])), c.get("states", 0), c.get("traces_validated_against_impl", 0),
          c.get("evaluations", 0), c.get("distinct_nontrivial", 0), round(e["wall_s"]), "; ".join(extras)[:260]))
