"""C10: workflow verdicts depend on the bytes delivered, not on how Read chunks them.

model    : Workflow.tla / WorkflowFast.tla: every Read may return 1..requested chunks; FreshConsecutive /
           JudgedSet / FreshOnly hold for every read-size history (exhaustive at 2-3 chunks per sample);
           the as-is single-Read and the unlocked-ReadFull protocols must violate FreshOnly
channel S: chunk policies (full, 1-byte, prime sizes 61 / 4093, random, all-but-one, halves, bufio-like
           straddling) x all seven functions; the stub runners verify that the buffer is exactly sample i
           of the self-describing stream; verdict and named item must equal the full-read run
channel T: every execution validated by TraceWorkflow.tla
"""
import json, random
import vlib
from checks import wf
from checks.c08 import fcfg, edge_plans

PROP = "C10"
POLICIES = [("full", 0), ("fixed", 61), ("fixed", 4093), ("random", 0), ("allbutone", 0), ("halves", 0), ("straddle", 4096), ("straddle", 1000), ("fixed", 2499), ("fullthenshort", 0)]


def model(run, thorough):
    for S, C in ([(3, 2), (3, 3)] + ([(4, 3), (3, 4)] if thorough else [])):
        c = ("CONSTANTS S=%d C=%d FailAt=99 ErrWithData=FALSE\nSPECIFICATION Spec\nINVARIANTS FreshConsecutive ExactConsumption NeverReadsBeyond NoFaultNoErr\n"
             "PROPERTY Terminates\nCHECK_DEADLOCK FALSE\n" % (S, C))
        r = vlib.tlc_ok(vlib.run_tlc("Workflow", c, workers=2, timeout=600), "Workflow")
        run.add_tlc(r, "Workflow S=%d C=%d all read-size histories" % (S, C))
    for W, S, C in ([(2, 3, 3), (3, 3, 2)] + ([(3, 3, 3), (2, 4, 3)] if thorough else [])):
        r = vlib.tlc_ok(vlib.run_tlc("WorkflowFast", fcfg(W, S, C), timeout=3000), "WorkflowFast")
        run.add_tlc(r, "WorkflowFast W=%d S=%d C=%d all read-size histories" % (W, S, C))
    for name, c in [("as-is single Read", fcfg(2, 3, 2, rf="FALSE", lk="FALSE", de="FALSE", se="FALSE")), ("ReadFull without lock", fcfg(2, 3, 2, lk="FALSE"))]:
        r = vlib.run_tlc("WorkflowFast", c, timeout=600)
        if r.violated != "FreshOnly":
            raise vlib.InfraError("vacuity guard: '%s' should violate FreshOnly, got %s" % (name, r.violated))
        run.configs.append({"config": "negative: " + name, "violates": "FreshOnly"})


def run(tier):
    run = vlib.Run(PROP, tier)
    thorough = tier == "thorough"
    rng = random.Random(vlib.seed())
    model(run, thorough)
    hz = vlib.go_build()
    jid = 0
    batches = []
    pairs = []
    for ts, w in [(None, 16), ("0", 1), ("0-1", 2), ("0-2", 3)]:
        jobs, meta = [], {}
        for fn in wf.KINDS:
            s, sb, items, fast = wf.KINDS[fn]
            if not fast and ts is not None:
                continue   # sequential workflows do not depend on NumCPU: run them once
            reps = (3 if thorough else 1) if sb > 2500 else (6 if thorough else 2)
            for rep in range(reps):
                ip = edge_plans(s, items, rng) if rep % 2 == 0 else None
                if ip is None:
                    ip = [{"pass": s, "hist": wf.flat(s), "qmode": "center"} for _ in range(15)]
                    ip[rng.randrange(items)]["pass"] = {20: 18, 50: 47}[s]
                pseed = rng.randrange(1 << 30)
                cnt = [ip[i]["pass"] for i in range(items)]
                hist = [ip[i]["hist"] for i in range(items)]
                ref = None
                pols = list(POLICIES)
                # 1-byte reads: always for the 2500-byte samples; for the 125000-byte samples (2.5 and 6.25 million Read calls
                # per workflow) once per function, sequential and with all workers
                if sb == 2500 or (rep == 0 and ts is None):
                    pols.append(("one", 0))
                for pol, size in pols:
                    if sb > 2500 and pol == "fixed" and size == 61 and not thorough and rep > 0:
                        continue
                    jid += 1
                    j = wf.mkjob(jid, fn, ip, plan_seed=pseed, policy=pol, size=size, rseed=rng.randrange(1 << 30),
                                 round_delay_us=rng.choice([0, 100]) if fast else 0, tag="W=%d %s/%d" % (w, pol, size),
                                 timeout_ms=60000 if (pol == "one" and sb > 2500) else 8000)
                    if ref is None:
                        ref = j
                    else:
                        j["stream"] = ref["stream"]
                        pairs.append((ref["id"], j["id"]))
                        if pol in ("random", "fixed") and size != 61:
                            # the stream holds exactly the bytes the workflow needs and hands over the last of them with io.EOF
                            j["stream"] = dict(ref["stream"], len=s * sb)
                            j["reader"]["eofWithData"] = True
                            j["tag"] += " exact length, EOF with the last bytes"
                    jobs.append(j)
                    meta[jid] = {"cnt": cnt, "hist": hist, "facts": {"policy": pol, "size": size, "w": w}}
        batches.append((ts, None, jobs, meta))
    allrows, allrej = {}, set()
    for ts, env, jobs, meta in batches:
        rows, rej = wf.run_and_validate(run, hz, jobs, meta, taskset=ts, env=env, nproc=8 if ts is None else 3)
        allrows.update(rows); allrej.update(rej)
        for j in jobs:
            run.nontriv("%s|%s" % (j["fn"], j["tag"]))
    for rid, jid2 in pairs:
        a, b = allrows.get(rid), allrows.get(jid2)
        if not a or not b or a.get("skipped") or b.get("skipped") or rid in allrej or jid2 in allrej:
            continue
        if (a.get("verdict"), a.get("named")) != (b.get("verdict"), b.get("named")):
            run.violation({"kind": "chunking-differential", "fn": a["fn"]}, {"full": {k: v for k, v in a.items() if k != "events"}, "chunked": {k: v for k, v in b.items() if k != "events"}})
    run.sample({"job": {k: v for k, v in batches[0][2][1].items() if k != "items"}})

    # ---- SingleDetect: real poker decision, every policy vs the full read of the same bytes
    lens = list(range(16, 4097)) if thorough else sorted(set(list(range(16, 60)) + [319 // 8, 40, 41, 1279, 1280, 1281, 4095, 4096] + [rng.randrange(16, 4097) for _ in range(120)]))
    # requests above 64 KiB (a size where an implementation may switch to block-wise reading)
    lens += [65536, 65537, 100000, 131073] + ([125000, 300000, 1048577] if thorough else [])
    sj, refs = [], {}
    for nb in lens:
        sseed = rng.randrange(1 << 40)
        # biased content so that both verdicts occur
        st = {"kind": "periodic", "period": [rng.choice([0x0f, 0x33, 0x55, 0xa7, rng.randrange(256)]) for _ in range(rng.choice([3, 7, 64, 257]))], "len": -1} if rng.random() < 0.4 \
            else {"kind": "seeded", "seed": sseed, "len": -1}
        jid += 1
        r0 = wf.mk_single(jid, nb, stream=st, tag="single nb=%d full" % nb)
        sj.append(r0)
        for pol, size in [("one", 0), ("fixed", 7 if nb <= 4096 else 997), ("random", 0), ("allbutone", 0), ("straddle", 16 if nb <= 4096 else 4096)]:
            jid += 1
            j = wf.mk_single(jid, nb, stream=st, policy=pol, size=size, rseed=jid, tag="single nb=%d %s" % (nb, pol))
            sj.append(j)
            refs[jid] = r0["id"]
    # contents on which the pattern lengths disagree (every nibble value equally often, but only 16 of the 256 byte values):
    # the verdict must follow the length of the request, not the size of the first chunk that happens to arrive
    for nb in (1280, 1281, 2048, 4096, 39, 40, 41):
        per = [0x11 * k for k in range(16)]
        rng.shuffle(per)
        st = {"kind": "periodic", "period": per, "len": -1}
        jid += 1
        r0 = wf.mk_single(jid, nb, stream=st, tag="single nb=%d nibble-uniform full" % nb)
        sj.append(r0)
        for pol, size in [("one", 0), ("fixed", 7), ("fixed", 1279), ("halves", 0), ("random", 0), ("fullthenshort", 0)]:
            jid += 1
            j = wf.mk_single(jid, nb, stream=st, policy=pol, size=size, rseed=jid, tag="single nb=%d nibble-uniform %s/%d" % (nb, pol, size))
            sj.append(j)
            refs[jid] = r0["id"]
    # streams whose period lines up with the read size (every Read delivers the same block again): still only the bytes count
    for nb in (64, 256, 1280, 4096):
        for per in (16, 64):
            for content in ("rand", "const"):
                period = [rng.randrange(256) for _ in range(per)] if content == "rand" else [rng.choice([0x00, 0xFF, 0x5A])] * per
                st = {"kind": "periodic", "period": period, "len": -1}
                jid += 1
                r0 = wf.mk_single(jid, nb, stream=st, tag="single nb=%d aligned period %d full" % (nb, per))
                sj.append(r0)
                for pol, size in [("fixed", 16), ("fixed", 32), ("fixed", 64), ("straddle", 16), ("one", 0)]:
                    jid += 1
                    j = wf.mk_single(jid, nb, stream=st, policy=pol, size=size, rseed=jid, tag="single nb=%d aligned period %d %s/%d" % (nb, per, pol, size))
                    sj.append(j)
                    refs[jid] = r0["id"]
    rows, crashed = vlib.run_hz_jobs(hz, "workflow", sj, nproc=8)
    if crashed:
        for c in crashed:
            run.violation({"kind": "crash-single"}, {"job": c["first_missing"], "stderr": c["stderr"][-1500:]})
    events = []
    for j in sj:
        r = rows.get(j["id"])
        if not r:
            continue
        rid = refs.get(j["id"], j["id"])
        events.append(wf.single_event(j, r, bool(rows[rid].get("verdict"))))
    acc, rej, gen = vlib.validate_trace("TraceWorkflow", events, timeout=900, max_rej=4)
    run.states += acc; run.transitions += gen; run.traces += acc; run.evaluations += len(events)
    byid = {j["id"]: j for j in sj}
    for e in rej:
        run.violation({"kind": "single-chunking", "tag": byid[e["id"]]["tag"]}, {"job": byid[e["id"]], "rejected_event": e})
    nfalse = sum(1 for j in sj if j["id"] not in refs and not rows.get(j["id"], {}).get("verdict"))
    run.extra["single_refs_false"] = nfalse
    run.extra["single_refs"] = len(lens)
    for j in sj:
        run.nontriv("single|" + j["tag"])
    run.rule = ("one execution per (function, worker count, chunk policy, plan); stub runners verify buffer = sample i byte for byte; "
                "chunked run compared with the full-read run on the same stream; SingleDetect: lengths x 5 policies vs full read")
    run.explanation = "Read-size histories are exhaustive on the models; against the code nine policies (incl. 1-byte and bufio-like straddling) per function."
    run.assumptions = ["policies sample the space of read-size histories", "the source's Read is safe for concurrent use"]
    run.finish()


def replay(path):
    from checks import c07
    c07.replay(path)
