"""C19: the fft package computes the discrete Fourier transform and its inverse (Spectral.tla)."""
import json, os, random, math
from decimal import Decimal
import vlib
from checks import statlib

PROP = "C19"


def model(run, N, log, variant="go", inv=("FFTisDFT", "InverseOK", "PermInvolution")):
    mc = statlib.mc_module("GenSpectral", (100,), ("uni",), (1,))
    cfg = ('CONSTANTS Family="fft" MinN=2 MaxN=4 Stride=%d Sizes<-MCSizes Modes<-MCModes Seeds<-MCSeeds FftN=%d FftLog=%d Variant="%s" LiftN=1024\n'
           'SPECIFICATION Spec\n%sCHECK_DEADLOCK FALSE\n' % (min(N, vlib.NCPU), N, log, variant, "".join("INVARIANT %s\n" % i for i in inv)))
    return vlib.run_tlc("MCGen", cfg, timeout=3000, extra_files={"MCGen.tla": mc})


def run(tier):
    run = vlib.Run(PROP, tier)
    thorough = tier == "thorough"
    rng = random.Random(vlib.seed())
    hz = vlib.go_build()
    vecs = []
    for log in ([1, 2, 3, 4, 5, 6] + ([7] if thorough else [])):
        N = 1 << log
        r = vlib.tlc_ok(model(run, N, log), "GenSpectral fft N=%d" % N)
        run.add_tlc(r, "GenSpectral fft N=%d: AlgFFT = DFT on the impulse basis, Inverse, permutation involution" % N)
        seen = set()
        for v in r.json:
            if v.get("ev") == "fftvec":
                k = json.dumps(v["x"])
                if k not in seen:
                    seen.add(k); vecs.append(v)
    for variant in ("badA", "badB"):
        r = model(run, 8, 3, variant, inv=("FFTisDFT",))
        if r.violated != "FFTisDFT":
            raise vlib.InfraError("vacuity guard: twiddle variant %s should violate FFTisDFT, got %s" % (variant, r.violated))
        run.configs.append({"config": "negative: twiddle index " + variant, "violates": "FFTisDFT"})
    # ---- channel R: exact spectra of integer inputs, N <= 64 (128)
    jobs = [{"id": i, "kind": "vec", "N": v["N"], "x": v["x"]} for i, v in enumerate(vecs)]
    rows, crashed = vlib.run_hz_jobs(hz, "fft", jobs, nproc=4)
    if crashed:
        raise vlib.InfraError("fft driver crashed: " + crashed[0]["stderr"][-800:])
    for i, v in enumerate(vecs):
        r = rows[i]
        norm = math.sqrt(sum(x * x for x in v["x"])) or 1.0
        tol = Decimal(16 * 2.220446049250313e-16 * max(1, (v["N"]).bit_length() - 1) * norm)   # 16 eps log2 N ||x||
        bad = None
        if r.get("panic") or r.get("err"):
            bad = "panic/err: %s" % r.get("panic")
        else:
            for k in range(v["N"]):
                try:
                    if abs(Decimal(r["re"][k]) - Decimal(v["re"][k])) > tol or abs(Decimal(r["im"][k]) - Decimal(v["im"][k])) > tol:
                        bad = "bin %d: code (%s, %s) spec (%s, %s)" % (k, r["re"][k], r["im"][k], v["re"][k][:22], v["im"][k][:22])
                        break
                except Exception:
                    bad = "bin %d not numeric: %s %s" % (k, r["re"][k], r["im"][k]); break
        run.evaluations += 1
        run.traces += 1
        if bad:
            run.violation({"kind": "vec", "N": v["N"], "why": bad[:160]}, {"cmd": "fft", "job": jobs[i], "expected_re": v["re"], "expected_im": v["im"], "why": bad})
        else:
            run.nontriv("vec|%d|%s" % (v["N"], json.dumps(v["x"])[:80]))
    run.sample({"fftvec": {"N": vecs[9]["N"], "x": vecs[9]["x"], "re0": vecs[9]["re"][0], "im1": vecs[9]["im"][1]}})
    # ---- channel T
    tj = []
    jid = 0
    def add(**kw):
        nonlocal jid
        jid += 1
        kw["id"] = jid
        kw.setdefault("j", 0); kw.setdefault("len", 0); kw.setdefault("N", 0)
        tj.append(kw)
    for N in list(range(-2, 5001 if thorough else 1200)):
        add(kind="new", N=N)
    maxe = 22 if thorough else 20
    for e in range(1, maxe + 1):
        for N in ((1 << e) - 1, 1 << e, (1 << e) + 1):
            add(kind="new", N=N)
    for N in ((1 << 27) + 1, (1 << 27) + 12345, 1 << 30, 2147483647, -5, -(1 << 20)):
        add(kind="new", N=N)
    add(kind="new", N=1 << 27)      # the largest legal length is really constructed once (about 3 GiB for a few seconds)
    maxf = 20 if thorough else 14
    for e in range(1, maxf + 1):
        N = 1 << e
        allj = N <= (1024 if thorough else 64)
        js = list(range(N)) if allj else sorted(set([0, 1, 2, N // 2, N - 1, N // 2 - 1, N // 4 + 1] + [rng.randrange(N) for _ in range(10 if e > 16 else 24)]))
        for j in js:
            for kind in ("impulse", "tone"):
                ks = sorted(set([0, 1, 2, N // 2, N - 1, j, (N - j) % N] + [rng.randrange(N) for _ in range(24)]))
                add(kind=kind, N=N, j=j, ks=ks)
        for s in range(3 if e <= 16 else 1):
            add(kind="inv", N=N, seed=rng.randrange(1 << 40))
    # transformers requested for a length that is not a power of two: the transform is the DFT of the largest power of two below it
    for e in ([1, 2, 3, 5, 8, 9, 10, 12] + ([14, 16] if thorough else [])):
        N = 1 << e
        for ctor in sorted({N + 1, N + N // 2, 2 * N - 1, N + 1 + rng.randrange(N - 1) if N > 1 else 3}):
            if ctor >= 2 * N or ctor <= N:
                continue
            for j in sorted({0, 1, N // 2, N - 1, rng.randrange(N)}):
                for kind in ("impulse", "tone"):
                    add(kind=kind, N=N, j=j, ctor=ctor, ks=sorted(set([0, 1, N // 2, N - 1, j, (N - j) % N] + [rng.randrange(N) for _ in range(12)])))
            add(kind="inv", N=N, ctor=ctor, seed=rng.randrange(1 << 40))
    # transformers with a past: a refused Inverse / Transform (wrong length), or an earlier Transform whose result the caller
    # still holds, before the judged call on the same transformer
    for e in ([1, 2, 3, 4, 6, 8, 10, 11] + ([13, 16] if thorough else [])):
        N = 1 << e
        for pre in ("refusedinv", "refusedfwd", "keep"):
            for j in sorted({0, 1, N - 1, rng.randrange(N)}):
                for kind in ("impulse", "tone"):
                    add(kind=kind, N=N, j=j, pre=pre, ks=sorted(set([0, 1, N // 2, N - 1, j, (N - j) % N] + [rng.randrange(N) for _ in range(12)])))
            add(kind="inv", N=N, pre=pre, seed=rng.randrange(1 << 40))
    for N in (2, 8, 1024, 4096):
        for ln in (N - 1, N + 1, 0, 2 * N, N // 2):
            add(kind="wronglen", N=N, len=ln)
    for N in (3, 1000, 1025):          # transformer for the largest power of two below N: a slice of length N is the wrong length
        add(kind="wronglen", N=N, len=N)
    rows, crashed = vlib.run_hz_jobs(hz, "fft", tj, nproc=vlib.NCPU, timeout=3000)
    # the larger transforms once more in processes that see 3 and 5 processors (GOMAXPROCS resp. CPU affinity): the result
    # of a transform must not depend on how many processors a (possibly parallelised) implementation finds
    base = [j for j in tj if j["kind"] in ("impulse", "tone", "inv") and j["N"] >= 2048]
    envruns = []
    for label, env, ts in (("GOMAXPROCS=3", {"GOMAXPROCS": "3"}, None), ("5 cpus", None, "0-4"), ("GOMAXPROCS=7", {"GOMAXPROCS": "7"}, "0-11")):
        sub = []
        for j in (base if thorough else base[::3] + [x for x in base if x["kind"] == "inv"]):
            jid += 1
            sub.append(dict(j, id=jid, envlabel=label))
        tj += sub
        r2, c2 = vlib.run_hz_jobs(hz, "fft", sub, nproc=4, timeout=3000, env=env, taskset=ts)
        rows.update(r2)
        crashed += c2
    run.extra["processor_count_variants"] = ["GOMAXPROCS=3", "affinity 5 cpus", "GOMAXPROCS=7 on 12 cpus"]
    # a platform whose int has 32 bits (the same driver built with GOARCH=386): constructor and transforms up to 2^12 points
    try:
        hz386 = vlib.go_build(goarch="386")
        ok386 = vlib.can_run_386(hz386)
    except vlib.InfraError:
        ok386 = False
    run.extra["int32_platform_pass"] = bool(ok386)
    if ok386:
        sub = []
        for j in list(tj):
            if j.get("envlabel"):
                continue
            if (j["kind"] == "new" and -2 <= j["N"] <= 300) or (j["kind"] == "new" and j["N"] > 1000 and j["N"] < (1 << 22)) or (j["kind"] in ("impulse", "tone", "inv", "wronglen") and j["N"] <= 4096 and (j["kind"] == "inv" or j.get("j", 0) % 3 == 0)):
                jid += 1
                sub.append(dict(j, id=jid, envlabel="GOARCH=386"))
        tj += sub
        r3, c3 = vlib.run_hz_jobs(hz386, "fft", sub, nproc=4, timeout=3000)
        rows.update(r3)
        crashed += c3
    if crashed:
        c = crashed[0]
        run.violation({"kind": "crash", "job": json.dumps(c["first_missing"])[:200]}, {"job": c["first_missing"], "stderr": c["stderr"][-1500:]})
    events = []
    for j in tj:
        r = rows.get(j["id"])
        if r is None:
            continue
        if r.get("skipped"):
            continue
        e = {"ev": "fft", "kind": j["kind"], "N": j["N"], "j": j["j"], "len": j["len"], "id": j["id"], "panicked": "panic" in r, "err": bool(r.get("err", False)),
             "hang": bool(r.get("hang", False)), "kept": bool(r.get("kept", True)),
             "n": int(r.get("n", 0)), "samples": r.get("samples", []), "maxerr": r.get("maxerr", "0"), "maxdiff": r.get("maxdiff", "0"),
             "norm": r.get("norm", "1"), "returned": bool(r.get("returned", False))}
        events.append(e)
    acc, rej, gen = vlib.validate_trace("TraceSpectral", events, timeout=3000, max_rej=4)
    run.states += acc; run.transitions += gen; run.traces += acc; run.evaluations += len(events)
    byid = {j["id"]: j for j in tj}
    for e in rej:
        run.violation({"kind": e["kind"], "N": e["N"], "j": e["j"], "len": e["len"]}, {"cmd": "fft", "job": byid[e["id"]], "event": {k: v for k, v in e.items() if k != "samples"}, "samples_head": e["samples"][:4]})
    for e in events:
        run.nontriv("%s|%d|%d|%d|%s|%s" % (e["kind"], e["N"], e["j"], e["len"], str(byid[e["id"]].get("ctor", 0)) + byid[e["id"]].get("pre", ""), byid[e["id"]].get("envlabel", "")))
    run.sample({"event": {k: v for k, v in events[-40].items() if k != "samples"}, "samples_head": events[-40]["samples"][:2]})
    run.rule = ("model: the FFT as written equals the DFT on every unit impulse for N = 2..64 (128) (complete by linearity) and Inverse inverts; "
                "code: exact spectra of integer inputs for N <= 64 (128); impulse (every position for small N) and tone families with TLC-judged sampled bins and a full-vector float screen "
                "for N = 2^1..2^14 (2^20); inverse round trips; constructor for all N in -2..1200 (5000) and around every 2^k; wrong-length refusal")
    run.explanation = "Exact arithmetic over Z[zeta_N] in the model; closed forms exp(-2 pi i jk/N) evaluated by the real layer for the code."
    run.assumptions = ["transforms above 2^20 points are not executed; the 2^27 limit is checked on both sides of the constructor (2^27 constructed once, 2^27+1 refused) and by the LastPow2 model",
                       "allowance 16 eps log2 N ||x|| (impulses, integer vectors, round trips) and 64 eps sqrt N ||x|| (tones, whose input is itself rounded); the pinned code measures 1.4 eps log2 N resp. 11 eps sqrt N"]
    run.finish()


def replay(path):
    rp = json.load(open(path))["replay"]
    hz = vlib.go_build()
    lab = (rp.get("job") or {}).get("envlabel", "")
    if lab == "GOARCH=386":
        hz = vlib.go_build(goarch="386")
    env, ts = ({"GOMAXPROCS": "3"}, None) if lab == "GOMAXPROCS=3" else (None, "0-4") if lab == "5 cpus" else ({"GOMAXPROCS": "7"}, "0-11") if lab == "GOMAXPROCS=7" else (None, None)
    rows, crashed = vlib.run_hz_jobs(hz, "fft", [rp["job"]], nproc=1, env=env, taskset=ts)
    print(json.dumps(list(rows.values()))[:3000])
    print("why:", rp.get("why"), rp.get("event"))
