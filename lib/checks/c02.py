"""C02: run-based tests return the standard-defined P and Q values (RunTests.tla)."""
import vlib
from checks import statlib

PROP = "C02"
# 160, 321, 642, 1283, ... are the lengths where the cut-off rule holds with equality: n - k + 3 = 5 * 2^(k+2)
SIZES_Q = (100, 101, 127, 128, 131, 159, 160, 161, 321, 642, 1000, 1283, 6271, 6272, 6273)
SIZES_T = (100, 101, 127, 128, 129, 131, 159, 160, 161, 255, 320, 321, 322, 641, 642, 643, 999, 1000, 1283, 2564, 4096, 5125, 6271, 6272, 6273, 10000, 10246, 20000, 20487)
MODES = ("uni", "bias25", "bias75", "const0", "const1", "alt", "step", "longrun", "longzero", "periodic", "stair")


def run(tier):
    from checks import statrun
    statrun.run_family(PROP, "run", tier, SIZES_Q, SIZES_T, MODES, l1=(8, 11, 13),
                       l3_calls=lambda n: [{"t": "runs"}, {"t": "rundist"}, {"t": "longest", "sym": 1}, {"t": "longest", "sym": 0}],
                       l3_sizes=[749999, 750000, 1000000, 1048576, 1048579] + ([750001, 10000000] if tier == "thorough" else []),
                       text="runs total, runs distribution (cut-off k(n), pooling, last run) and longest run of ones/zeros in the three regimes (8 / 128 / 10000-bit blocks); "
                            "the class-probability tables are checked against the exact combinatorial probabilities (recurrence validated by brute force for m <= 10)")


def replay(path):
    statlib.replay_one(path)
