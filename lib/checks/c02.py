"""C02: run-based tests return the standard-defined P and Q values (RunTests.tla)."""
import vlib
from checks import statlib

PROP = "C02"
SIZES_Q = (100, 101, 127, 128, 131, 1000, 6271, 6272, 6273)
SIZES_T = (100, 101, 127, 128, 129, 131, 255, 999, 1000, 4096, 6271, 6272, 6273, 10000, 20000)
MODES = ("uni", "bias25", "bias75", "const0", "const1", "alt", "step", "longrun", "longzero", "periodic", "stair")


def run(tier):
    from checks import statrun
    statrun.run_family(PROP, "run", tier, SIZES_Q, SIZES_T, MODES, l1=(8, 11, 13),
                       l3_calls=lambda n: [{"t": "runs"}, {"t": "rundist"}, {"t": "longest", "sym": 1}, {"t": "longest", "sym": 0}],
                       l3_sizes=[749999, 750000, 1000000] + ([750001, 10000000] if tier == "thorough" else []),
                       text="runs total, runs distribution (cut-off k(n), pooling, last run) and longest run of ones/zeros in the three regimes (8 / 128 / 10000-bit blocks); "
                            "the class-probability tables are checked against the exact combinatorial probabilities (recurrence validated by brute force for m <= 10)")


def replay(path):
    statlib.replay_one(path)
