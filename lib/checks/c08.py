"""C08: parallel (Fast) workflows give the sequential verdict under every schedule.

model    : WorkflowFast.tla (repaired protocol) exhaustive for small W, S, C: JudgedSet, FreshOnly, slot
           ownership, barrier, mutex, termination and worker exit under weak fairness; the as-is
           switches (single Read / no lock) must still violate FreshOnly (vacuity guard)
channel S: stub runners + self-describing stream, free-running with random delays in Read and in the
           runners, plus two gated schedule families (barrier: simultaneous publishes; straggler: the
           first sample's worker finishes last); the stubs re-verify the buffer at the end of each round; W = NumCPU in {1,2,3,16} (taskset), GOMAXPROCS varied, short-read policies,
           slot- and count-sensitive plans; sequential variant on the same stream for the differential
channel T: every execution validated by TraceWorkflow.tla
real mode: PeriodDetectFast vs PeriodDetect with the real runners on seeded streams (matrix logged,
           verdict judged by TLC from the matrix; differential on verdict and named item)
race     : the same drivers in a -race build; any report with frames in the repository is a violation
"""
import json, os, random, re
from decimal import Decimal
import vlib
from checks import wf

PROP = "C08"
FASTS = ["PeriodDetectFast", "PowerOnDetectFast", "FactoryDetectFast"]
XSTAR = Decimal("16.85997421948231699950996604")


def fcfg(W, S, C, F=99, rf="TRUE", lk="TRUE", de="TRUE", se="TRUE", live=False, inv=True, tr="FALSE", ns="FALSE"):
    s = "CONSTANTS W=%d S=%d C=%d FailAt=%d PartialErr=FALSE UseReadFull=%s UseLock=%s DoneOnError=%s SurfaceError=%s Transient=%s NonSticky=%s\n" % (W, S, C, F, rf, lk, de, se, tr, ns)
    s += "SPECIFICATION Spec\nCHECK_DEADLOCK FALSE\n"
    if inv:
        s += "INVARIANTS TypeOK JudgedSet FreshOnly NoNegativeWG MutexOK FaultMeansFalse NoFaultNoErr NeverReadsBeyond DecideAfterBarrier\nPROPERTY SlotOwnership\n"
    if live:
        s += "PROPERTIES Terminates WorkersExit\n"
    return s


def model(run, thorough):
    cfgs = [("repaired safety W3 S4 C2", fcfg(3, 4, 2)), ("repaired liveness W2 S3 C2", fcfg(2, 3, 2, live=True)),
            ("repaired safety W2 S3 C3", fcfg(2, 3, 3))]
    if thorough:
        cfgs += [("repaired safety W3 S5 C2", fcfg(3, 5, 2)), ("repaired safety W4 S4 C2", fcfg(4, 4, 2)),
                 ("repaired liveness W3 S3 C2", fcfg(3, 3, 2, live=True)), ("repaired safety W3 S3 C3", fcfg(3, 3, 3))]
    for name, c in cfgs:
        r = vlib.tlc_ok(vlib.run_tlc("WorkflowFast", c, timeout=3000), "WorkflowFast " + name)
        run.add_tlc(r, name)
    vlib.coverage_audit(run, "WorkflowFast", [fcfg(2, 3, 2), fcfg(2, 3, 2, F=3)],
                        ["MainAdd", "MainOffer", "MainSentAll", "MainWait", "MainDecide", "Recv", "Exit", "Lock", "ReadOK", "ReadFail", "Unlock", "Round", "Done", "ErrDone"])
    # vacuity guard: the defects of the pinned commit must be visible to these invariants
    for name, c, want in [("as-is single Read", fcfg(2, 3, 2, rf="FALSE", lk="FALSE", de="FALSE", se="FALSE"), "FreshOnly"),
                          ("ReadFull without lock", fcfg(2, 3, 2, lk="FALSE"), "FreshOnly")]:
        r = vlib.run_tlc("WorkflowFast", c, timeout=600)
        if r.violated != want:
            raise vlib.InfraError("vacuity guard: config '%s' should violate %s, got %s" % (name, want, r.violated))
        run.configs.append({"config": "negative: " + name, "violates": want})


def edge_plans(s, items, rng, coupled=False):
    """Slot- and count-sensitive plans: one item's pass count exactly at the threshold, one item's histogram
    accepted but such that moving any one sample into bin 0 (what an unwritten / overwritten slot does, since
    untouched slots hold 0.0) rejects it."""
    cstar = int(Decimal(20 * s) * XSTAR)
    chi = lambda h: sum((10 * f - s) ** 2 for f in h)
    best = None
    # search nonincreasing histograms with bin 0 saturated
    for f0 in range(s, 0, -1):
        rest = s - f0
        h = [f0] + [0] * 9
        # spread the rest as evenly as possible over bins 1..9
        for i in range(rest):
            h[1 + i % 9] += 1
        if chi(h) <= cstar:
            ok = True
            for b in range(1, 10):
                if h[b] > 0:
                    g = list(h); g[b] -= 1; g[0] += 1
                    if chi(g) <= cstar:
                        ok = False
            if ok:
                best = h
                break
    if best is None:
        raise vlib.InfraError("no edge histogram for s=%d" % s)
    thr = {20: 19, 50: 48}[s]
    k1 = rng.randrange(items)
    k2 = (k1 + 1 + rng.randrange(items - 1)) % items
    ip = [{"pass": s, "hist": wf.flat(s), "qmode": "center"} for _ in range(15)]
    ip[k1] = {"pass": thr, "hist": wf.flat(s), "qmode": "center"}
    # bins permuted except bin 0 stays saturated
    tail = best[1:]
    rng.shuffle(tail)
    ip[k2] = {"pass": s, "hist": [best[0]] + tail, "qmode": "center"}
    if coupled:
        # the same item is at the pass-count threshold AND at the uniformity edge, and its failing samples carry a Q
        # outside bin 0: every sample's Q counts in the histogram, whether or not the sample passed
        ip[k1] = {"pass": s, "hist": wf.flat(s), "qmode": "center"}
        fb = rng.choice([b for b in range(1, 10) if ip[k2]["hist"][b] >= s - thr])
        ip[k2] = dict(ip[k2], **{"pass": thr, "failbin": fb})
    return ip


def run(tier):
    run = vlib.Run(PROP, tier)
    thorough = tier == "thorough"
    rng = random.Random(vlib.seed())
    model(run, thorough)
    hz = vlib.go_build()
    hzr = vlib.go_build(race=True)

    # ---- stub mode, free-running, per worker count
    groups = []  # (taskset, env, jobs, meta)
    jid = 0
    wsets = [("0", 1), ("0-1", 2), ("0-2", 3), (None, 16)]
    reps = {"PeriodDetectFast": 24 if thorough else 8, "PowerOnDetectFast": 6 if thorough else 2, "FactoryDetectFast": 4 if thorough else 1}
    policies = ["full", "random", "fixed", "halves", "allbutone", "straddle"]
    pairs = []
    for ts, w in wsets:
        for gmp in ([1, 2, w, 32] if thorough else [1, max(2, w)]):
            jobs = []
            meta = {}
            for fn in FASTS:
                s, sb, items, _ = wf.KINDS[fn]
                for rep in range(reps[fn]):
                    mode = rep % 4
                    if mode == 0:
                        ip = edge_plans(s, items, rng)
                    elif mode == 1:   # a failing run: one item below threshold, another non-uniform
                        ip = [{"pass": s, "hist": wf.flat(s), "qmode": "center"} for _ in range(15)]
                        a = rng.randrange(items); b = (a + 1 + rng.randrange(items - 1)) % items
                        ip[a]["pass"] = {20: 18, 50: 47}[s]
                        ip[b]["hist"] = [s] + [0] * 9
                    elif mode == 2:  # items 13..15 failing: must not matter for the periodic variant
                        ip = [{"pass": s, "hist": wf.flat(s), "qmode": "center"} for _ in range(15)]
                        for k in (12, 13, 14):
                            ip[k] = {"pass": 0, "hist": [s] + [0] * 9, "qmode": "center"}
                    else:
                        ip = edge_plans(s, items, rng, coupled=True)
                    pol = policies[(rep + jid) % len(policies)]
                    size = rng.choice([61, 4093, 1000, 125001]) if pol in ("fixed", "straddle") else 0
                    pseed = rng.randrange(1 << 30)
                    salt_id = jid + 1
                    # injected delays only where the number of Read calls stays small (a sleep costs >= 50 us)
                    few_reads = pol in ("full", "halves", "allbutone") or sb <= 2500 or size >= 60000
                    common = dict(items_plan=ip, plan_seed=pseed, policy=pol, size=size, rseed=rng.randrange(1 << 30),
                                  delay_us=rng.choice([0, 20, 200]) if few_reads else 0, round_delay_us=rng.choice([0, 50, 300]))
                    jid += 1
                    jf = wf.mkjob(jid, fn, tag="fast W=%d GOMAXPROCS=%d %s" % (w, gmp, pol), **common)
                    # schedule families realised by gates inside the stub runners (WorkflowFast.tla explores all of them on the model):
                    # barrier = workers publish simultaneously; straggler = the first sample's worker finishes last
                    jf["gate"] = ["", "barrier", "straggler", "barrier"][rep % 4] if w > 1 else ""
                    if jf["gate"]:
                        jf["tag"] += " gate=" + jf["gate"]
                        jf["roundDelayUs"] = 0
                    jid += 1
                    js = wf.mkjob(jid, wf.SEQ_OF[fn], tag="seq ref", **dict(common, delay_us=0, round_delay_us=0))
                    js["stream"] = jf["stream"]
                    cnt = [ip[i]["pass"] for i in range(items)]
                    hist = [ip[i]["hist"] for i in range(items)]
                    for j in (jf, js):
                        jobs.append(j)
                        meta[j["id"]] = {"cnt": cnt, "hist": hist, "facts": {"w": w, "gomaxprocs": gmp, "policy": pol, "mode": mode}}
                    pairs.append((jf["id"], js["id"]))
            groups.append((ts, {"GOMAXPROCS": str(gmp)}, jobs, meta))
    # ---- spec -> code schedule replay: TLC-simulated behaviours of WorkflowFast at the real number of samples, projected to
    # short-read sizes (replayed by the reader) and the completion order of the samples (replayed by gates)
    nsim = 12 if thorough else 5
    sim_total = 0
    for Wm, ts in [(2, "0-1"), (3, "0-2"), (4, "0-3")]:
        jobs, meta = [], {}
        for S, fns in [(20, ["PeriodDetectFast", "PowerOnDetectFast"]), (50, ["FactoryDetectFast"])]:
            cfg = ("CONSTANTS W=%d S=%d C=3 FailAt=99 PartialErr=FALSE UseReadFull=TRUE UseLock=TRUE DoneOnError=TRUE SurfaceError=TRUE Transient=FALSE NonSticky=FALSE\n"
                   "INIT SInit\nNEXT SNext\nCHECK_DEADLOCK FALSE\n" % (Wm, S))
            r = vlib.run_tlc("SimFast", cfg, workers=1, simulate="num=%d" % nsim, depth=3000, timeout=600, tlc_args=["-seed", str(vlib.seed() + 17 * Wm + S)])
            if r.rc != 0:
                raise vlib.InfraError("SimFast simulation failed: " + "\n".join(r.out.splitlines()[-15:]))
            run.add_tlc(r, "SimFast -simulate W=%d S=%d (%d behaviours)" % (Wm, S, nsim))
            scheds = [v for v in r.json if v.get("ev") == "schedule"]
            if len(scheds) < nsim:
                raise vlib.InfraError("SimFast produced %d schedules" % len(scheds))
            for sc in scheds:
                for fn in fns:
                    s_, sb, items, _ = wf.KINDS[fn]
                    ip = edge_plans(s_, items, rng)
                    jid += 1
                    jf = wf.mkjob(jid, fn, items_plan=ip, plan_seed=rng.randrange(1 << 30), policy="script", rseed=jid, tag="TLC schedule W=%d" % Wm, timeout_ms=15000)
                    jf["reader"].update({"splits": sc["splits"], "splitC": sc["C"], "sampleB": sb})
                    jf["gate"] = "order"
                    jf["order"] = sc["order"]
                    jid += 1
                    js = wf.mkjob(jid, wf.SEQ_OF[fn], items_plan=ip, plan_seed=jf["planSeed"], tag="seq ref")
                    js["stream"] = jf["stream"]
                    cnt = [ip[i]["pass"] for i in range(items)]
                    hist = [ip[i]["hist"] for i in range(items)]
                    for j in (jf, js):
                        jobs.append(j)
                        meta[j["id"]] = {"cnt": cnt, "hist": hist, "facts": {"w": Wm, "policy": "tlc-schedule"}}
                    pairs.append((jf["id"], js["id"]))
                    sim_total += 1
        groups.append((ts, {"GOMAXPROCS": str(max(2, Wm))}, jobs, meta))
    # a source that fails (for good, or once and then recovers): the parallel variant must answer like the sequential one,
    # (false, error) -- C09 enumerates the fault positions, this is the differential on a handful of them
    jobs, meta = [], {}
    for fn in FASTS:
        s_, sb, items, _ = wf.KINDS[fn]
        for kind in (["transient", "custom", "parttransient", "temporary", "eof"] if fn == "PeriodDetectFast" or thorough else ["transient"]):
            for off in sorted({0, sb // 2, sb * (s_ // 2) + 17, sb * (s_ - 1) + 5}) if fn == "PeriodDetectFast" else [sb * 3 + 11]:
                jid += 1
                jf = wf.mkjob(jid, fn, policy=rng.choice(["full", "fixed"]), size=4093, rseed=jid, fail_at=off, fail_kind=kind, tag="fault %s@%d" % (kind, off))
                jid += 1
                js = wf.mkjob(jid, wf.SEQ_OF[fn], policy="full", rseed=jid, fail_at=off, fail_kind=kind, tag="seq ref fault %s@%d" % (kind, off))
                js["stream"] = jf["stream"]
                for j in (jf, js):
                    jobs.append(j)
                    meta[j["id"]] = {"cnt": [s_] * items, "hist": [wf.flat(s_)] * items, "facts": {"kind": kind, "off": off, "policy": "fault"}}
                pairs.append((jf["id"], js["id"]))
    groups.append((None, None, jobs, meta))
    run.extra["tlc_simulated_schedules_replayed"] = sim_total
    allrows = {}
    allrej = set()
    for ts, env, jobs, meta in groups:
        rows, rej = wf.run_and_validate(run, hz, jobs, meta, taskset=ts, env=env, nproc=4)
        allrows.update(rows)
        allrej.update(rej)
    run.sample({"job": {k: v for k, v in groups[0][2][0].items() if k != "items"}, "plan_item_sample": groups[0][2][0]["items"][:3]})
    sj = groups[-2][2][0]
    run.sample({"tlc_schedule_job": {"fn": sj["fn"], "splits_head": sj["reader"]["splits"][:12], "order": sj["order"]}})
    run.extra["gate_timeouts"] = sum(int((allrows.get(j["id"]) or {}).get("gate_timeouts", 0) or 0) for g in groups for j in g[2])
    # differential fast vs sequential
    for fid, sid in pairs:
        a, b = allrows.get(fid), allrows.get(sid)
        if not a or not b or fid in allrej or sid in allrej:
            continue
        if (a.get("verdict"), a.get("named")) != (b.get("verdict"), b.get("named")):
            run.violation({"kind": "differential", "fn": a["fn"]}, {"fast": {k: v for k, v in a.items() if k != "events"},
                                                                   "seq": {k: v for k, v in b.items() if k != "events"}})
        run.nontriv("pair%d" % fid)

    # ---- real runners: PeriodDetectFast vs PeriodDetect (and the 10^6-bit pairs in thorough)
    rjobs = []
    rmeta = {}
    rpairs = []
    nreal = 600 if thorough else 120
    for n in range(nreal):
        kind = rng.choice(["seeded"] * 6 + ["periodic"])
        if kind == "seeded":
            st = {"kind": "seeded", "seed": rng.randrange(1 << 40), "len": -1}
        else:
            st = {"kind": "periodic", "period": [rng.randrange(256) for _ in range(rng.choice([251, 997, 4099]))], "len": -1}
        jid += 1
        jf = wf.mkjob(jid, "PeriodDetectFast", mode="real", stream=st, policy=rng.choice(["full", "random", "fixed"]), size=613,
                      rseed=rng.randrange(1 << 30), delay_us=rng.choice([0, 10]), tag="real fast")
        jid += 1
        js = wf.mkjob(jid, "PeriodDetect", mode="real", stream=st, tag="real seq")
        rjobs += [jf, js]
        rpairs.append((jf["id"], js["id"]))
    if thorough:
        for fn in ("PowerOnDetectFast", "FactoryDetectFast"):
            st = {"kind": "seeded", "seed": rng.randrange(1 << 40), "len": -1}
            jid += 1
            jf = wf.mkjob(jid, fn, mode="real", stream=st, policy="fixed", size=65536, timeout_ms=900000, tag="real fast 1e6")
            jid += 1
            js = wf.mkjob(jid, wf.SEQ_OF[fn], mode="real", stream=st, timeout_ms=900000, tag="real seq 1e6")
            rjobs += [jf, js]
            rpairs.append((jf["id"], js["id"]))
    rows, crashed = vlib.run_hz_jobs(hz, "workflow", rjobs, nproc=8, timeout=3000)
    if crashed:
        for c in crashed:
            j = c["first_missing"]
            run.violation({"kind": "crash-real", "fn": j["fn"] if j else "?"}, {"job": j, "stderr": c["stderr"][-1500:]})
    for j in rjobs:
        r = rows.get(j["id"])
        if not r or "pass" not in r:
            rmeta[j["id"]] = None
            continue
        s, sb, items, _ = wf.KINDS[j["fn"]]
        rmeta[j["id"]] = {"cnt": [sum(1 for x in r["pass"][k] if x) for k in range(items)], "hist": [], "facts": {"kind": "real"}}
    evgroups = []
    for j in rjobs:
        if rmeta.get(j["id"]) and rows.get(j["id"]):
            evgroups.append(wf.trace_events(j, rows[j["id"]], rmeta[j["id"]]["cnt"], []))
    acc, rej, gen = vlib.validate_trace("TraceWorkflow", None, groups=evgroups, resync=lambda e: e["ev"] == "begin", max_rej=8, timeout=3000)
    run.states += acc; run.transitions += gen
    rej_ids = {e["id"] for e in rej}
    run.traces += len(evgroups) - len(rej_ids)
    run.evaluations += len(evgroups)
    byid = {j["id"]: j for j in rjobs}
    for i in rej_ids:
        r = rows[i]
        run.violation({"kind": "real-matrix", "fn": r["fn"]}, {"job": byid[i], "result": {k: v for k, v in r.items() if k not in ("events",)}})
    nfalse = 0
    for fid, sid in rpairs:
        a, b = rows.get(fid), rows.get(sid)
        if not a or not b:
            continue
        if (a.get("verdict"), a.get("named")) != (b.get("verdict"), b.get("named")):
            run.violation({"kind": "differential-real", "fn": a["fn"]},
                          {"jobs": [byid[fid], byid[sid]], "fast": {k: a.get(k) for k in ("verdict", "err", "named")},
                           "seq": {k: b.get(k) for k in ("verdict", "err", "named")}})
        if not a.get("verdict"):
            nfalse += 1
        run.nontriv("real%d" % fid)
    run.extra["real_pairs"] = len(rpairs)
    run.extra["real_pairs_with_false_verdict"] = nfalse

    # ---- race build: a slice of the stub jobs and of the real jobs, free-running
    race_jobs = []
    for ts, env, jobs, meta in groups[-2:]:
        race_jobs += [j for j in jobs if j["fn"].endswith("Fast")][:12 if thorough else 6]
    race_jobs += [j for j in rjobs if j["fn"] == "PeriodDetectFast"][:20 if thorough else 6]
    tmp = vlib.scratch("race")
    jp = os.path.join(tmp, "j.json"); op = os.path.join(tmp, "o.ndjson")
    with open(jp, "w") as fh:
        json.dump({"jobs": race_jobs}, fh)
    p = vlib.run_bin(hzr, ["workflow", jp, op], timeout=3000, env={"GORACE": "halt_on_error=0"})
    races = re.findall(r"WARNING: DATA RACE.*?(?:==================\n)", p.stderr, re.S)
    inrepo = [x for x in races if "/repo/" in x or "github.com/Trisia/randomness" in x]
    run.extra["race_jobs"] = len(race_jobs)
    run.extra["race_reports"] = len(races)
    run.evaluations += len(race_jobs)
    if inrepo:
        run.violation({"kind": "data-race"}, {"report": inrepo[0][:4000], "jobs": [j["id"] for j in race_jobs][:10]})
    elif p.returncode != 0 and not races:
        raise vlib.InfraError("race build driver failed: " + p.stderr[-1500:])

    run.rule = ("stub-mode pairs (Fast execution + sequential reference on the same stream and plan) per worker count x GOMAXPROCS x read policy x plan "
                "(slot/count-sensitive edge plans, failing plans, items 13-15 failing); real-runner pairs on seeded streams; "
                "distinct = distinct pair; every pair is a different schedule/stream")
    run.explanation = ("The worker protocol is model-checked exhaustively for small constants; the real code is bound by TLC-validated traces of "
                       "free-running executions, a sequential/parallel differential, and the race detector.")
    run.assumptions = ["schedules against the real code are sampled (free-running with injected delays), not enumerated",
                       "taskset sets runtime.NumCPU(); the source's Read is safe for concurrent use (the driver's reader locks)"]
    run.finish()


def replay(path):
    from checks import c07
    rp = json.load(open(path))["replay"]
    if "job" in rp:
        c07.replay(path)
    else:
        print(json.dumps(rp, indent=1)[:4000])
