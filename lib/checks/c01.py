"""C01: frequency / pattern-count tests return the standard-defined P and Q values (FreqTests.tla)."""
import json, random
import vlib
from checks import statlib

PROP = "C01"
FAMILY = "freq"
SIZES_Q = (100, 101, 127, 128, 999, 1000, 1001, 4096, 10000)
SIZES_T = (100, 101, 127, 128, 999, 1000, 1001, 4095, 4096, 4097, 9999, 10000, 10001, 20000)
MODES = ("uni", "bias25", "bias75", "const0", "const1", "alt", "step", "longrun", "periodic", "stair")


def run(tier):
    from checks import statrun
    statrun.run_family(PROP, FAMILY, tier, SIZES_Q, SIZES_T, MODES, l1=(8, 10, 12),
                       l3_calls=lambda n: [{"t": "mono"}, {"t": "block", "m": 10000 if n >= 1000000 else 1000, "auto": True}, {"t": "block", "m": 100, "auto": False}] +
                                          # explicit block lengths down to 2 (hundreds of thousands of blocks: shape a = N/2 far above any other caller's)
                                          ([{"t": "block", "m": 2, "auto": False}, {"t": "block", "m": 4, "auto": False}, {"t": "block", "m": 7, "auto": False}] if n in (1000003, 1048576, 98304) else []) + [
                                           {"t": "poker", "m": 4}, {"t": "poker", "m": 8}, {"t": "poker", "m": 2},
                                           {"t": "serial", "m": 2}, {"t": "serial", "m": 3}, {"t": "serial", "m": 5}, {"t": "serial", "m": 7},
                                           {"t": "apen", "m": 2}, {"t": "apen", "m": 5}, {"t": "apen", "m": 7}],
                       text="monobit, block frequency (explicit and automatic block length), poker m in {2,4,8} (bit and byte paths), overlapping subsequence m in {2,3,5,7}, approximate entropy m in {2,5,7}")


def replay(path):
    statlib.replay_one(path)
