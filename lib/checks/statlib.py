"""Shared machinery for the statistical-test properties (C01-C05, C15-C18): TLC generation runs of
GenStats / GenAlg, replay of the emitted vectors into every entry point (channel R), proxy tie, and
trace validation of large seeded inputs (channel T)."""
import json, os
from decimal import Decimal, InvalidOperation
import vlib

TOL = Decimal("1e-8")


def mc_module(base, sizes, modes, seeds):
    def tl(xs):
        return "<<" + ", ".join(('"%s"' % x) if isinstance(x, str) else str(x) for x in xs) + ">>"
    return "---- MODULE MCGen ----\nEXTENDS %s\nMCSizes == %s\nMCModes == %s\nMCSeeds == %s\n====\n" % (base, tl(sizes), tl(modes), tl(seeds))


def gen_stats(family, level, minn=8, maxn=10, sizes=(100,), modes=("uni",), seeds=(1,), timeout=3000, base="GenStats", extra_consts="", invariants=("AlgEqualsDef",)):
    cfg = ('CONSTANTS Family="%s" Level=%d MinN=%d MaxN=%d Stride=%d Sizes<-MCSizes Modes<-MCModes Seeds<-MCSeeds %s\nSPECIFICATION Spec\n%sCHECK_DEADLOCK FALSE\n'
           % (family, level, minn, maxn, 2 * vlib.NCPU, extra_consts, "".join("INVARIANT %s\n" % i for i in invariants)))
    r = vlib.run_tlc("MCGen", cfg, timeout=timeout, extra_files={"MCGen.tla": mc_module(base, sizes, modes, seeds)})
    vlib.tlc_ok(r, "%s family=%s level=%d" % (base, family, level))
    vecs = [v for v in r.json if v.get("ev") in ("vec", "fftvec")]
    seen, uniq = set(), []
    for v in vecs:
        key = (json.dumps(v["label"], sort_keys=True), len(v.get("bits", [])))
        if key in seen:
            continue
        seen.add(key)
        uniq.append(v)
    return r, uniq


def fn_list(f):
    """TLC function over 0..k or 1..k rendered as dict / list -> python list."""
    if isinstance(f, dict):
        return [f[k] for k in sorted(f, key=int)]
    return list(f)


def sumsq(h):
    return sum(int(v) * int(v) for v in fn_list(h))


def stat_of_vector(c):
    """Integer summary of a TLC call record in a canonical form comparable with the Go proxy."""
    t = c["t"]
    if t in ("mono", "bd"):
        return {"S": c["S"]}
    if t == "block":
        return {"N": c["N"], "dev": c["dev"]}
    if t == "poker":
        return {"N": c["N"], "hist": fn_list(c["hist"])}
    if t == "serial":
        return {"s1": c["s1"], "s2": c["s2"], "s3": c["s3"]}
    if t == "apen":
        return {"hm": fn_list(c["hm"]), "hm1": fn_list(c["hm1"])}
    if t == "runs":
        return {"vobs": c["vobs"], "ones": c["ones"]}
    if t == "rundist":
        return {"k": c["k"], "b": fn_list(c["b"]), "g": fn_list(c["g"])}
    if t == "longest":
        return {"regime": c["regime"], "N": c["N"], "nu": fn_list(c["nu"])}
    if t == "ac":
        return {"A": c["A"]}
    if t == "cusum":
        return {"Z": c["Z"]}
    if t == "rank":
        return {"N": c["N"], "ranks": fn_list(c["ranks"])}
    if t == "lc":
        return {"N": c["N"], "Ls": fn_list(c["Ls"])}
    if t == "maurer":
        return {"K": c["K"], "dist": [list(x) for x in fn_list(c["dist"])]}
    return None


def stat_of_proxy(c, p):
    t = c["t"]
    if t == "block":
        m = c["m"]
        return {"N": p["N"], "dev": sum((2 * o - m) ** 2 for o in p["ones"])}
    if t == "serial":
        return {"s1": sumsq(p["h1"]), "s2": sumsq(p["h2"]), "s3": sumsq(p["h3"])}
    if t == "maurer":
        return {"K": p["K"], "dist": [list(x) for x in p["dist"]]}
    return p


def close(a, b, tol=TOL):
    try:
        return abs(Decimal(a) - Decimal(b)) <= tol
    except (InvalidOperation, TypeError):
        return False


def compare_call(c, res, bitident=False):
    """Returns list of mismatch descriptions for one call record `c` (TLC) vs the driver row `res`."""
    bad = []
    if not res["entries"]:
        return ["no entry point executed for %s" % c["t"]]
    for e in res["entries"]:
        if e.get("panic"):
            bad.append("%s panicked: %s" % (e["entry"], e["panic"][:200]))
            continue
        if "alts" in c:
            # the specification leaves bins within 1e-9 of the threshold undecided: any admissible N1 is accepted
            alts = fn_list(c["alts"])
            if not any(close(e["P"], a["P"]) and close(e["Q"], a["Q"]) for a in alts):
                bad.append("%s P=%s Q=%s matches none of the %d admissible N1 (spec P=%s)" % (e["entry"], e["P"], e["Q"], len(alts), c["P"][:24]))
        for fld in (() if "alts" in c else ("P", "Q", "P2", "Q2")):
            if fld in c:
                if fld not in e:
                    # registry runner of a two-valued test reports P2/Q2 too; single-valued have none
                    continue
                if not close(e[fld], c[fld]):
                    bad.append("%s %s=%s spec=%s" % (e["entry"], fld, e[fld], c[fld][:24]))
        if e.get("mutated"):
            bad.append("%s mutated its input" % e["entry"])
        if e.get("nondet"):
            bad.append("%s not deterministic" % e["entry"])
    # all entry points bit-identical among themselves
    pb = {(e.get("Pb"), e.get("Qb")) for e in res["entries"] if not e.get("panic")}
    if bitident and len(pb) > 1:
        bad.append("entry points disagree bit-wise: " + ", ".join("%s=%s" % (e["entry"], e.get("Pb")) for e in res["entries"]))
    return bad


def replay(run, hz, vecs, prop_of=None, nproc=None, check_proxy=True, facts_extra=None, timeout=3000, bitident=False):
    """Channel R. vecs: TLC vectors (ev=vec). Returns number of call evaluations."""
    for i, v in enumerate(vecs):
        v["id"] = i
    jobs = [{"id": v["id"], "bits": v["bits"], "calls": v["calls"], "word": v.get("word", []), "repeat": v.get("repeat", 0)} for v in vecs]
    from concurrent.futures import ThreadPoolExecutor
    k = max(1, min(nproc or vlib.NCPU, len(jobs)))
    tmp = vlib.scratch("statr")
    parts = [jobs[i::k] for i in range(k)]

    def one(idx):
        jp = os.path.join(tmp, "j%d.json" % idx); op = os.path.join(tmp, "o%d.ndjson" % idx)
        with open(jp, "w") as fh:
            json.dump({"vectors": parts[idx], "proxy": check_proxy}, fh)
        p = vlib.run_bin(hz, ["stats-replay", jp, op], timeout=timeout)
        if p.returncode != 0:
            raise vlib.InfraError("hz stats-replay failed rc=%s: %s" % (p.returncode, (p.stderr or "")[-1500:]))
        return vlib.read_ndjson(op)

    with ThreadPoolExecutor(max_workers=k) as ex:
        rows = [r for part in ex.map(one, range(k)) for r in part]
    byvc = {(r["id"], r["call"]): r for r in rows}
    nev = 0
    for v in vecs:
        for ci, c in enumerate(v["calls"]):
            r = byvc.get((v["id"], ci))
            if r is None:
                raise vlib.InfraError("missing driver row for vector %d call %d" % (v["id"], ci))
            nev += 1
            bad = compare_call(c, r, bitident)
            if check_proxy and "proxy" in r:
                sv, sp = stat_of_vector(c), stat_of_proxy(c, r["proxy"])
                if c["t"] == "dft":
                    pr = r["proxy"]
                    if pr["lo"] + pr["amb"] < c["N1"] or c["N1"] + c["amb"] < pr["lo"]:
                        raise vlib.InfraError("DFT proxy count [%d,+%d] does not meet the exact count [%d,+%d] on %s" % (pr["lo"], pr["amb"], c["N1"], c["amb"], json.dumps(v["label"])))
                    sv = None
                if sv is not None and json.dumps(sv, sort_keys=True) != json.dumps(sp, sort_keys=True):
                    raise vlib.InfraError("spec proxy disagrees with the TLA+ definition on %s %s: spec %s proxy %s" % (
                        c["t"], json.dumps(v["label"]), json.dumps(sv)[:300], json.dumps(sp)[:300]))
            if bad:
                facts = {"test": c["t"], "n": len(v["bits"]) or v.get("repeat", 0), "why": bad[0][:200]}
                for pk in ("m", "k", "d", "forward", "sym", "M"):
                    if pk in c:
                        facts[pk] = c[pk]
                facts.update(facts_extra or {})
                bits = v["bits"]
                run.violation(facts, {"cmd": "stats-replay", "label": v["label"], "bits": "".join(str(b) for b in bits) if len(bits) <= 4096 else bits,
                                      "call": c, "observed": r["entries"], "mismatches": bad[:6]})
            else:
                try:
                    pv = Decimal(c["P"])
                    if Decimal("1e-6") < pv < Decimal("0.999999"):
                        run.nontriv("%s|%s|%s" % (c["t"], json.dumps({k2: c[k2] for k2 in c if k2 in ("m", "k", "d", "forward", "sym", "M")}, sort_keys=True), json.dumps(v["label"], sort_keys=True)))
                except Exception:
                    pass
    run.traces += len(vecs)
    run.evaluations += nev
    return nev


def replay_one(path):
    rp = json.load(open(path))["replay"]
    hz = vlib.go_build()
    tmp = vlib.scratch("rp")
    jp = os.path.join(tmp, "j.json"); op = os.path.join(tmp, "o.ndjson")
    bits = rp["bits"]
    if isinstance(bits, str):
        bits = [int(ch) for ch in bits]
    with open(jp, "w") as fh:
        json.dump({"vectors": [{"id": 0, "bits": bits, "calls": [rp["call"]]}], "proxy": False}, fh)
    p = vlib.run_bin(hz, ["stats-replay", jp, op])
    print("spec :", json.dumps({k: rp["call"].get(k) for k in ("t", "m", "k", "d", "P", "Q", "P2", "Q2") if k in rp["call"]}))
    print("code :", open(op).read()[:3000])
    print("then :", json.dumps(rp.get("mismatches")))
