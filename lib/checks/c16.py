"""C16: results are well-formed probabilities with consistent P, Q and Pass (Registry!ResultOK)."""
import json, os, random
import vlib

PROP = "C16"
MODES = ["const0", "const1", "alt", "step", "onehot", "heavy", "halves", "periodic", "dombyte", "bias", "runsbias", "uni"]


def run(tier):
    run = vlib.Run(PROP, tier)
    thorough = tier == "thorough"
    rng = random.Random(vlib.seed())
    hz = vlib.go_build()
    r = vlib.tlc_ok(vlib.run_tlc("GenDecision", "CONSTANTS MaxLen = 1 SMax = 30\nINIT Init\nNEXT Next\nCHECK_DEADLOCK FALSE\n", workers=2, timeout=300), "model sanity")
    sizes = [100, 101, 127, 128, 1000, 1024, 6272, 8967, 8968, 10000, 100000, 1000000] + ([104, 136, 8976, 750000, 10000000] if thorough else [])
    inputs = []
    iid = 0
    for n in sizes:
        modes = MODES if (thorough or n <= 10000) else rng.sample(MODES[:8], 4) + ["uni", "bias"]
        if n >= 10000000:
            modes = ["const1", "alt", "uni", "heavy"]
        for mode in modes:
            for rep in range(2 if mode in ("heavy", "step", "onehot", "periodic") and n <= 10000 else 1):
                iid += 1
                inputs.append({"id": iid, "mode": mode, "n": n, "seed": rng.randrange(1 << 40)})
    inputs.sort(key=lambda i: -i["n"])
    tmp = vlib.scratch("res")
    from concurrent.futures import ThreadPoolExecutor
    def one(inp):
        jp = os.path.join(tmp, "j%d.json" % inp["id"]); op = os.path.join(tmp, "o%d.ndjson" % inp["id"])
        with open(jp, "w") as fh:
            json.dump({"inputs": [inp]}, fh)
        p = vlib.run_bin(hz, ["results", jp, op], timeout=6000)
        if p.returncode != 0:
            raise vlib.InfraError("hz results failed: " + (p.stderr or "")[-800:])
        return vlib.read_ndjson(op)
    with ThreadPoolExecutor(max_workers=vlib.NCPU if not thorough else 6) as ex:
        events = [e for part in ex.map(one, inputs) for e in part]
    # a platform whose int has 32 bits (GOARCH=386 build of the same driver): the larger inputs again, several per process
    try:
        hz386 = vlib.go_build(goarch="386")
        ok386 = vlib.can_run_386(hz386)
    except vlib.InfraError:
        ok386 = False
    run.extra["int32_platform_pass"] = bool(ok386)
    if ok386:
        sub = [dict(i, id=i["id"] + 100000) for i in inputs if i["n"] in (1000000, 100000, 8967, 1024, 128)]
        groups386 = [sub[k::6] for k in range(6)]
        def one386(grp):
            if not grp:
                return []
            jp = os.path.join(tmp, "k%d.json" % grp[0]["id"]); op = os.path.join(tmp, "p%d.ndjson" % grp[0]["id"])
            with open(jp, "w") as fh:
                json.dump({"inputs": grp}, fh)
            p = vlib.run_bin(hz386, ["results", jp, op], timeout=6000)
            if p.returncode != 0:
                raise vlib.InfraError("hz (386) results failed: " + (p.stderr or "")[-800:])
            return vlib.read_ndjson(op)
        with ThreadPoolExecutor(max_workers=6) as ex:
            ev386 = [e for part in ex.map(one386, groups386) for e in part]
        for e in ev386:
            e["arch"] = "386"
        events += ev386
        inputs = inputs + sub
    # inputs on which only one of the two P-values of the overlapping test is below 0.01
    jp = os.path.join(tmp, "hunt.json"); op = os.path.join(tmp, "hunt.ndjson")
    with open(jp, "w") as fh:
        json.dump({"serialHunt": 20000 if thorough else 6000, "passHunt": 600 if thorough else 200, "windowHunt": 6 if thorough else 3, "huntSeed": rng.randrange(1 << 40), "inputs": []}, fh)
    p = vlib.run_bin(hz, ["results", jp, op], timeout=1200)
    if p.returncode != 0:
        raise vlib.InfraError("hz results (hunt) failed: " + (p.stderr or "")[-500:])
    hunt = vlib.read_ndjson(op)
    if sum(1 for e in hunt if e["mode"] == "serialhunt") < 4:
        raise vlib.InfraError("vacuity: found only %d inputs with exactly one overlapping P-value below 0.01" % len(hunt))
    win = [e for e in hunt if e["mode"].startswith("windowhunt")]
    if len({(e["t"], e["mode"]) for e in win}) < 4:
        raise vlib.InfraError("vacuity: results within 1e-6 of the significance level were constructed for only %s" % sorted({(e["t"], e["mode"]) for e in win}))
    run.extra["results_within_1e-6_of_alpha"] = len(win)
    marg = [e for e in hunt if e["mode"] == "passhunt"]
    if len({e["t"] for e in marg}) < 12:
        raise vlib.InfraError("vacuity: marginal results (1e-5 < P < 0.03) found for only %d of the 15 runners" % len({e["t"] for e in marg}))
    events += hunt
    run.extra["overlapping_one_sided_inputs"] = sum(1 for e in hunt if e["mode"] == "serialhunt")
    run.extra["marginal_runner_results"] = len(marg)
    acc, rej, gen = vlib.validate_trace("TraceRegistry", events, timeout=3000, max_rej=6)
    run.states += acc; run.transitions += gen; run.traces += acc; run.evaluations += len(events)
    for e in events:
        run.nontriv("%s|%s|%d|%s|%d|%s" % (e["t"], e["param"], e["n"], e["mode"], e["seed"], e["isrunner"]))
    run.sample({"res_event": events[len(events) // 2]})
    run.sample({"res_event": [e for e in events if e["mode"] == "const1"][0]})
    byid = {i["id"]: i for i in inputs}
    byid[-1] = {"id": -1, "mode": "serialhunt", "n": 1024, "seed": 0}
    byid[-3] = {"id": -3, "mode": "windowhunt", "n": 0, "seed": 0}
    byid[-2] = {"id": -2, "mode": "passhunt", "n": 20000, "seed": 0}
    for e in rej:
        run.violation({"kind": "result", "test": e["t"], "param": e["param"], "n": e["n"], "mode": e["mode"], "isrunner": e["isrunner"]},
                      {"cmd": "results", "input": byid[e["id"]], "event": e})
    run.extra["inputs"] = len(inputs)
    run.rule = ("extreme and seeded descriptors (constant, alternating, single transition, one-hot, heavy bias 0.01..0.99, balanced halves, periodic, mild bias, sticky, uniform) x sizes from "
                "the minimum (100, 128, 1024, 8967) to 10^6 (10^7) x all fifteen tests with every documented parameter (bit entry points) and the registry runners (byte-aligned sizes); "
                "lengths below a test's own minimum are not sent to it; every (test, parameter, input) counts once")
    run.explanation = "TLC judges every recorded result with Registry!ResultOK: finite, in [0,1] up to 1e-9, P = 2 min(Q,1-Q) for two-sided tests, Q = P for chi-square tests, Pass <=> P >= 0.01 (min(P1,P2) for the overlapping test)."
    run.assumptions = ["float64 values are compared through their shortest exact decimal rendering"]
    run.finish()


def replay(path):
    rp = json.load(open(path))["replay"]
    hz = vlib.go_build()
    tmp = vlib.scratch("rr")
    jp = os.path.join(tmp, "j.json"); op = os.path.join(tmp, "o.ndjson")
    with open(jp, "w") as fh:
        json.dump({"inputs": [rp["input"]]}, fh)
    vlib.run_bin(hz, ["results", jp, op])
    for e in vlib.read_ndjson(op):
        if e["t"] == rp["event"]["t"] and e["param"] == rp["event"]["param"] and e["isrunner"] == rp["event"]["isrunner"]:
            print(json.dumps(e))
