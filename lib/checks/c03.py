"""C03: correlation and random-walk tests return the standard-defined P and Q values (CorrTests.tla)."""
import vlib
from checks import statlib

PROP = "C03"
SIZES_Q = (100, 101, 128, 1000, 4097, 10000)
SIZES_T = (33, 34, 40, 64, 100, 101, 127, 128, 999, 1000, 1001, 4096, 4097, 10000, 20000)
MODES = ("uni", "bias25", "bias75", "const0", "const1", "alt", "step", "longrun", "periodic", "stair")


def run(tier):
    from checks import statrun
    statrun.run_family(PROP, "corr", tier, SIZES_Q, SIZES_T, MODES, l1=(8, 11, 13),
                       l3_calls=lambda n: [{"t": "bd", "k": 3}, {"t": "bd", "k": 7}, {"t": "bd", "k": 15}] +
                                          [{"t": "ac", "d": d} for d in (1, 2, 8, 16, 32)] + [{"t": "cusum", "forward": True}, {"t": "cusum", "forward": False}],
                       text="binary derivative k in {3,7,15}, autocorrelation d in {1,2,8,16,32}, cumulative sums forward/backward incl. extreme excursions (constant: Z = n; alternating: Z = 1)")


def replay(path):
    statlib.replay_one(path)
