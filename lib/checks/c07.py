"""C07: factory / power-on / periodic verdicts equal the GM/T decision rule.

model    : GenVerdict.tla exhaustive over all Q-histogram classes (partitions of s into <= 10 parts) and
           all pass counts, for (s, items) = (20,12), (20,15), (50,15): critical value, verdict rule,
           named-item rule (Decision.tla)
channel S: every emitted matrix realised through stub runners in the exported registry; the real
           FactoryDetect / PowerOnDetect / PeriodDetect run on a self-describing stream
channel T: each execution validated by TraceWorkflow.tla (fresh consecutive samples, items 1..12/15
           in order, verdict = Decision!VerdictTrue, named item fails a criterion, exact consumption)
"""
import json, os, random
import vlib
from checks import wf

PROP = "C07"
CFG = "CONSTANTS SS=%d Items=%d Band=%d\nSPECIFICATION Spec\nINVARIANTS CriticalValueAgrees UniformityRange FlatAccepted VerdictRule NamedIsFailing\nCHECK_DEADLOCK FALSE\n"


def run(tier):
    run = vlib.Run(PROP, tier)
    thorough = tier == "thorough"
    rng = random.Random(vlib.seed())
    hz = vlib.go_build()
    jobs = []
    meta = {}
    jid = 0
    for fn, band, cap in [("PeriodDetect", 99999999, None), ("PowerOnDetect", 99999999, None if thorough else 500),
                          ("FactoryDetect", 99999999 if thorough else 600, None if thorough else 900)]:
        s, sb, items, fast = wf.KINDS[fn]
        r = vlib.tlc_ok(vlib.run_tlc("GenVerdict", CFG % (s, items, band), timeout=3000), "GenVerdict %s" % fn)
        run.add_tlc(r, "GenVerdict SS=%d Items=%d Band=%d" % (s, items, band))
        vecs = [v for v in r.json if v.get("ev") == "verdict"]
        seen = set()
        uniq = []
        for v in vecs:
            k = json.dumps(v, sort_keys=True)
            if k not in seen:
                seen.add(k)
                uniq.append(v)
        if len(uniq) < 50:
            raise vlib.InfraError("GenVerdict produced too few vectors for %s" % fn)
        if cap and len(uniq) > cap:
            # keep all count / two-item vectors near the threshold, sample the uniformity classes
            keep = [v for v in uniq if v["kind"] != "uni"]
            uni = [v for v in uniq if v["kind"] == "uni"]
            rng.shuffle(uni)
            keep = keep[:cap // 2] if len(keep) > cap // 2 else keep
            uniq = keep + uni[:max(0, cap - len(keep))]
        for v in uniq:
            jid += 1
            plan = [dict(e, qmode=v["qmode"]) for e in v["plan"]]
            ip, cnt, hist = wf.plan_items(plan, items, s)
            policy = rng.choice(["full", "full", "fixed", "halves"])
            jobs.append(wf.mkjob(jid, fn, ip, plan_seed=rng.randrange(1 << 30), policy=policy, size=4093, rseed=jid, tag=v["kind"]))
            meta[jid] = {"cnt": cnt, "hist": hist, "vec": v,
                         "facts": {"kind": v["kind"], "plan": json.dumps(v["plan"], sort_keys=True)}}
        run.sample({"fn": fn, "vector": uniq[len(uniq) // 3]})
    # coupled plans: one item at the pass-count threshold whose histogram is accepted only as long as the Q value of its
    # failing sample is counted where it lies (bin b > 0) -- every sample's Q enters the histogram, passed or not
    from checks.c08 import edge_plans
    for fn in ("PeriodDetect", "PowerOnDetect", "FactoryDetect"):
        s, sb, items, fast = wf.KINDS[fn]
        for rep in range((12 if thorough else 4) if fn != "FactoryDetect" else (4 if thorough else 1)):
            jid += 1
            ip = edge_plans(s, items, rng, coupled=True)
            if rep % 2 == 0:
                ip = [dict(x, qmode="edgebelow") for x in ip]     # Q values a hair below the class edges
            jobs.append(wf.mkjob(jid, fn, ip, plan_seed=rng.randrange(1 << 30), rseed=jid, tag="coupled"))
            meta[jid] = {"cnt": [ip[i]["pass"] for i in range(items)], "hist": [ip[i]["hist"] for i in range(items)],
                         "vec": {"verdict": True, "kind": "coupled", "plan": [{"item": i + 1, "pass": ip[i]["pass"], "hist": ip[i]["hist"]} for i in range(items) if ip[i]["pass"] < s]},
                         "facts": {"kind": "coupled", "plan": json.dumps([x for x in ip[:items] if x.get("failbin")], sort_keys=True)}}
    rows, rej = wf.run_and_validate(run, hz, jobs, meta)
    # overlapping calls with the real runners: six periodic detections (healthy and biased sources side by side) released
    # together, three rounds; each must judge exactly its own stream (matrix computed from the stream afterwards, verdict by TLC)
    oj = []
    for g in range(8 if thorough else 6):
        jid += 1
        if g % 2 == 0:
            st = {"kind": "seeded", "seed": rng.randrange(1 << 40), "len": -1}
        else:
            st = {"kind": "periodic", "period": [rng.choice([0x00, 0x01, 0x80, 0xFF, rng.randrange(256)]) for _ in range(rng.choice([5, 17, 251]))], "len": -1}
        j = wf.mkjob(jid, "PeriodDetect", mode="real", stream=st, policy=rng.choice(["full", "halves", "fixed"]), size=1250, rseed=jid, tag="overlapping calls")
        j["conc"] = 1
        oj.append(j)
    orow, ocr = vlib.run_hz_jobs(hz, "workflow", oj, nproc=1, timeout=1800)
    if ocr:
        run.violation({"kind": "crash-overlapping"}, {"job": ocr[0]["first_missing"], "stderr": ocr[0]["stderr"][-1500:]})
    ogroups = []
    for j in oj:
        r = orow.get(j["id"])
        if not r:
            continue
        items = 12
        cnt = [sum(1 for x in r["pass"][k] if x) for k in range(items)] if "pass" in r else [0] * items
        ogroups.append(wf.trace_events(j, r, cnt, []))
    if ogroups:
        oacc, orej, ogen = vlib.validate_trace("TraceWorkflow", None, groups=ogroups, resync=lambda e: e["ev"] == "begin", max_rej=6, timeout=900)
        run.states += oacc; run.transitions += ogen; run.traces += len(ogroups) - len({e["id"] for e in orej}); run.evaluations += len(ogroups)
        obyid = {j["id"]: j for j in oj}
        for i_ in {e["id"] for e in orej}:
            r = orow[i_]
            run.violation({"kind": "overlapping-calls", "fn": "PeriodDetect"},
                          {"job": obyid[i_], "result": {k: v for k, v in r.items() if k not in ("events", "qs", "pass", "dump")},
                           "note": "six PeriodDetect calls ran at the same time, each on its own source; this one did not judge its own stream"})
        run.extra["overlapping_real_calls"] = len(ogroups)
    # orchestrator-side cross-check against the verdict GenVerdict printed (same Decision operators, evaluated at generation time)
    nt = 0
    for j in jobs:
        r = rows.get(j["id"])
        v = meta[j["id"]]["vec"]
        if r is None or j["id"] in rej:
            continue
        if bool(r.get("verdict")) != bool(v["verdict"]) and not run.violations:
            raise vlib.InfraError("TraceWorkflow accepted job %d but GenVerdict expected verdict %s" % (j["id"], v["verdict"]))
        near = v["kind"] != "uni" or True
        run.nontriv("%s|%s" % (j["fn"], json.dumps(v["plan"], sort_keys=True)))
    run.rule = ("one execution of the real workflow per TLC-emitted matrix (item under test x pass count x histogram class x Q placement "
                "centre/edge); distinct = distinct (workflow, deviating-item plan); all are non-trivial: each fixes a different matrix")
    run.explanation = ("Verdict rule and critical values are model-checked over every histogram class; each class and pass count is then "
                       "driven through the real workflow with stub runners and the execution trace is validated by TLC.")
    run.assumptions = ["the workflows obtain their per-test results only through randomness.TestMethodArr runners (stub mode); "
                       "if a refactor bypasses the registry the stubs see no calls and TraceWorkflow rejects (reported as a violation of 'runs the registry tests')",
                       "Q placement inside a bin does not matter except on edges (edges are exercised explicitly)"]
    run.exhaustive = thorough
    run.finish()


def replay(path):
    rp = json.load(open(path))["replay"]
    hz = vlib.go_build()
    rows, crashed = vlib.run_hz_jobs(hz, "workflow", [rp["job"]], nproc=1)
    for r in rows.values():
        r = dict(r)
        ev = r.pop("events", [])
        r.pop("dump", None)
        print(json.dumps(r)[:2000])
        print("events:", json.dumps(ev[:5])[:1500])
    print("originally rejected event:", json.dumps(rp.get("rejected_event"))[:800])
