"""C12: pass-count threshold and sample-uniformity statistic (Decision.tla).

model   : GenDecision.tla exhaustive over palette multisets (order independence, range, chi forms,
          unique + monotone thresholds for s <= SMax, anchors)
channel R: every enumerated multiset (with two permutations) replayed into detect.ThresholdQ
channel T: detect.Threshold(s) for ranges of s and seeded long Q lists, validated by TraceDecision.tla
"""
import json, os, random
from decimal import Decimal
import vlib

PROP = "C12"
TOL = Decimal("1e-12") + Decimal("4.5e-14")


def _replay_vectors(run, hz, vectors, tmp):
    job = os.path.join(tmp, "job.json")
    outp = os.path.join(tmp, "out.ndjson")
    with open(job, "w") as fh:
        json.dump({"vectors": [{"id": i, "qs": v["qs"], "rev": v["rev"], "rot": v["rot"]} for i, v in enumerate(vectors)]}, fh)
    p = vlib.run_bin(hz, ["thresholdq-replay", job, outp], timeout=600)
    if p.returncode != 0:
        raise vlib.InfraError("hz thresholdq-replay failed: " + p.stderr[-1000:])
    res = {r["id"]: r for r in vlib.read_ndjson(outp)}
    bad = []
    for i, v in enumerate(vectors):
        r = res.get(i)
        if r is None:
            raise vlib.InfraError("missing result for vector %d" % i)
        why = None
        if r.get("panic"):
            why = "panic"
        elif r.get("err"):
            raise vlib.InfraError("vector parse error " + r["err"])
        else:
            try:
                dv = Decimal(r["v"])
                if abs(dv - Decimal(v["expected"])) > TOL:
                    why = "value %s != spec %s" % (r["v"], v["expected"])
            except Exception:
                why = "non-numeric result " + str(r["v"])
            if not why and not (r["vbits"] == r["revbits"] == r["rotbits"] == r["againbits"]):
                why = "order dependence: bits %s rev %s rot %s again %s" % (r["vbits"], r["revbits"], r["rotbits"], r["againbits"])
            if not why and r.get("mutated"):
                why = "input list mutated"
        if why:
            bad.append((i, why, r))
    return bad


def run(tier):
    run = vlib.Run(PROP, tier)
    thorough = tier == "thorough"
    sd = vlib.seed()
    tmp = vlib.scratch("c12")
    hz = vlib.go_build()

    # ---- model + generation
    maxlen = 5 if thorough else 3
    smax = 3000 if thorough else 600
    cfg = "CONSTANTS MaxLen = %d SMax = %d\nINIT Init\nNEXT Next\nCHECK_DEADLOCK FALSE\n" \
          "INVARIANT OrderIndependent\nINVARIANT InRange\nINVARIANT HistTotal\nINVARIANT ChiForms\n" % (maxlen, smax)
    r = vlib.tlc_ok(vlib.run_tlc("GenDecision", cfg, timeout=3000 if thorough else 600), "GenDecision")
    run.add_tlc(r, "GenDecision MaxLen=%d SMax=%d" % (maxlen, smax))
    # for ALL s (TLC covers s <= SMax): the integer predicate is monotone in t, holds at t = s and fails at t = -1, so the
    # least t with Pred(s,t) exists in 0..s and is the only threshold -- proved with TLAPS (DecisionProofs.tla)
    vlib.tlaps_check(run, "DecisionProofs")
    seen = set()
    vectors = []
    for v in r.json:
        if v.get("ev") != "thresholdq":
            continue
        k = json.dumps(v["qs"])
        if k in seen:
            continue
        seen.add(k)
        vectors.append(v)
    if len(vectors) < 100:
        raise vlib.InfraError("GenDecision emitted only %d vectors" % len(vectors))
    bad = _replay_vectors(run, hz, vectors, tmp)
    if bad:  # confirm once more from the saved vectors (determinism)
        again = {i2: why2 for i2, why2, _ in _replay_vectors(run, hz, [vectors[i] for i, _, _ in bad], tmp)}
        for n, (i, why, res) in enumerate(bad):
            if n not in again:
                raise vlib.InfraError("thresholdq mismatch not reproducible: " + why)
            run.violation({"kind": "thresholdq", "qs": " ".join(vectors[i]["qs"]), "why": why},
                          {"cmd": "thresholdq-replay", "vector": vectors[i], "observed": res, "why": why})
    run.traces += len(vectors)
    run.evaluations += len(vectors)
    for v in vectors:
        e = Decimal(v["expected"])
        if Decimal("1e-6") < e < Decimal("0.999999"):
            run.nontriv("q:" + " ".join(v["qs"]))
    run.sample({"thresholdq_vector": vectors[len(vectors) // 2]})

    # ---- channel T: Threshold(s)
    rng = random.Random(sd)
    ranges = [[1, 20000]]
    ks = [k for k in range(1, 302) if 11 * k * k <= 1000000]
    for k in ks:
        s = 11 * k * k
        ranges.append([max(1, s - 1), 3 if s < 1000000 else 2])
    if thorough:
        ranges[0] = [1, 1000000]
    for _ in range(20):
        s0 = rng.randrange(20001, 999000)
        ranges.append([s0, 1000])
    ranges.append([999001, 1000])
    # the same function is asked again for small s after large ones, and downwards (a result must not depend on earlier calls)
    ranges += [[1, 3000], [20, 1], [50, 1]]
    desc = [[s, 1] for s in range(2100, 0, -7)]
    ranges += desc
    job = os.path.join(tmp, "tj.json")
    outp = os.path.join(tmp, "tt.ndjson")
    with open(job, "w") as fh:
        json.dump({"ranges": ranges, "batch": 1000}, fh)
    p = vlib.run_bin(hz, ["threshold-trace", job, outp], timeout=900)
    if p.returncode != 0:
        raise vlib.InfraError("hz threshold-trace failed: " + p.stderr[-1000:])
    ev_thr = vlib.read_ndjson(outp)
    # ---- channel T: ThresholdQ on seeded long lists
    with open(job, "w") as fh:
        json.dump({"seed": sd, "count": 400 if thorough else 60, "maxlen": 3000}, fh)
    outq = os.path.join(tmp, "tq.ndjson")
    p = vlib.run_bin(hz, ["thresholdq-trace", job, outq], timeout=900)
    if p.returncode != 0:
        raise vlib.InfraError("hz thresholdq-trace failed: " + p.stderr[-1000:])
    ev_q = vlib.read_ndjson(outq)
    # the same lists on a platform whose int has 32 bits (GOARCH=386 build of the driver)
    try:
        hz386 = vlib.go_build(goarch="386")
        ok386 = vlib.can_run_386(hz386)
    except vlib.InfraError:
        ok386 = False
    run.extra["int32_platform_pass"] = bool(ok386)
    if ok386:
        outq3 = os.path.join(tmp, "tq386.ndjson")
        p = vlib.run_bin(hz386, ["thresholdq-trace", job, outq3], timeout=900)
        if p.returncode != 0:
            raise vlib.InfraError("hz (386) thresholdq-trace failed: " + p.stderr[-1000:])
        ev3 = vlib.read_ndjson(outq3)
        for e in ev3:
            e["arch"] = "386"
        ev_q += ev3
        with open(job, "w") as fh:
            json.dump({"ranges": [[1, 3000], [999001, 1000]] + [[11 * k * k - 1, 3] for k in range(1, 302, 7)], "batch": 1000}, fh)
        outt3 = os.path.join(tmp, "tt386.ndjson")
        p = vlib.run_bin(hz386, ["threshold-trace", job, outt3], timeout=900)
        if p.returncode != 0:
            raise vlib.InfraError("hz (386) threshold-trace failed: " + p.stderr[-1000:])
        ev_thr386 = vlib.read_ndjson(outt3)
        ranges386 = json.load(open(job))["ranges"]
        for e in ev_thr386:
            e["arch"] = "386"
    else:
        ev_thr386 = []
    events = ev_thr + ev_q + ev_thr386
    acc, rej, gen = vlib.validate_trace("TraceDecision", events, timeout=3000)
    run.states += acc
    run.transitions += gen
    run.traces += acc
    n_s = sum(len(e["ts"]) for e in ev_thr)
    run.evaluations += n_s + len(ev_q)
    run.nontrivial_count += n_s + len(ev_q)
    run.sample({"threshold_event": {"s0": ev_thr[0]["s0"], "ts_head": ev_thr[0]["ts"][:8]}})
    run.sample({"thresholdq_event": {"n": len(ev_q[0]["qs"]), "qs_head": ev_q[0]["qs"][:5], "v": ev_q[0]["v"]}})
    for e in rej:
        # confirm against the real code once more (deterministic functions: re-run and compare the event)
        if e["ev"] == "threshold" and e.get("arch") == "386":
            idx = [i for i, x in enumerate(ev_thr386) if x["s0"] == e["s0"] and x["ts"] == e["ts"]][0]
            with open(job, "w") as fh:
                json.dump({"ranges": ranges386, "batch": 1000}, fh)
            p = vlib.run_bin(hz386, ["threshold-trace", job, outp], timeout=900)
            again = vlib.read_ndjson(outp)
            if len(again) <= idx or again[idx]["ts"] != e["ts"]:
                raise vlib.InfraError("threshold event (386) not reproducible")
            run.violation({"kind": "threshold", "s0": e["s0"], "arch": "386"},
                          {"cmd": "threshold-trace", "arch": "386", "ranges": ranges386, "index": idx, "event": {"s0": e["s0"], "n": len(e["ts"]), "ts": e["ts"]},
                           "why": "TraceDecision.tla rejects: some ts[i] is not the least t with Pred(s,t) (GOARCH=386 build)"})
        elif e["ev"] == "threshold":
            # the whole call sequence is executed again: the answer may depend on the calls before it
            idx = [i for i, x in enumerate(ev_thr) if x is e or (x["s0"] == e["s0"] and x["ts"] == e["ts"])][0]
            with open(job, "w") as fh:
                json.dump({"ranges": ranges, "batch": 1000}, fh)
            p = vlib.run_bin(hz, ["threshold-trace", job, outp], timeout=900)
            again = vlib.read_ndjson(outp)
            if len(again) <= idx or again[idx]["ts"] != e["ts"]:
                raise vlib.InfraError("threshold event not reproducible")
            run.violation({"kind": "threshold", "s0": e["s0"]},
                          {"cmd": "threshold-trace", "ranges": ranges, "index": idx, "event": {"s0": e["s0"], "n": len(e["ts"]), "ts": e["ts"]},
                           "why": "TraceDecision.tla rejects: some ts[i] is not the least t with Pred(s,t) (call sequence = ranges in order)"})
        else:
            run.violation({"kind": "thresholdq-long", "n": len(e["qs"]), "arch": e.get("arch", "amd64")},
                          {"cmd": "thresholdq-trace", "event": e, "why": "TraceDecision.tla rejects ThresholdQEvent"})
    run.rule = ("ThresholdQ: every multiset of size 1..%d over a 21-value palette (TLC-enumerated, real-layer oracle, tol 1e-12, "
                "bit-identical under reversal/rotation), non-trivial = distinct multiset with 1e-6 < expected < 1-1e-6; "
                "Threshold: each s in the listed ranges judged by the exact integer predicate (each s counts once); "
                "seeded long lists with 3 shuffles each" % maxlen)
    run.exhaustive = thorough
    run.explanation = ("Decision.tla defines Threshold by an exact integer inequality and the uniformity statistic as Q(9/2, ChiNum/(20 s)); "
                       "TLC enumerates inputs and judges recorded outputs of the real detect.Threshold/ThresholdQ.")
    run.extra["threshold_s_values_checked"] = n_s
    run.extra["threshold_ranges"] = ranges[:5] + (["..."] if len(ranges) > 5 else [])
    run.assumptions = ["RealFn Q(a,x) closed form is correct (axioms checked on a grid; mpmath cross-check at setup)",
                       "float64 shortest-decimal rendering is used for logged values (differs from the exact double by < 1e-17 relative)"]
    run.finish()


def replay(path):
    with open(path) as fh:
        rp = json.load(fh)["replay"]
    hz = vlib.go_build()
    tmp = vlib.scratch("c12r")
    job = os.path.join(tmp, "job.json"); outp = os.path.join(tmp, "o.ndjson")
    if rp.get("arch") == "386":
        hz = vlib.go_build(goarch="386")
    if rp["cmd"] == "thresholdq-replay":
        v = rp["vector"]
        with open(job, "w") as fh:
            json.dump({"vectors": [{"id": 0, "qs": v["qs"], "rev": v["rev"], "rot": v["rot"]}]}, fh)
        vlib.run_bin(hz, ["thresholdq-replay", job, outp])
        print("spec expected:", v["expected"]); print("code now     :", open(outp).read())
    elif rp["cmd"] == "threshold-trace":
        e = rp["event"]
        with open(job, "w") as fh:
            json.dump({"ranges": rp.get("ranges") or [[e["s0"], e["n"]]], "batch": 1000}, fh)
        vlib.run_bin(hz, ["threshold-trace", job, outp])
        rows = vlib.read_ndjson(outp)
        print("recorded:", json.dumps(e)[:1000]); print("code now:", json.dumps(rows[rp.get("index", 0)])[:1000])
    else:
        print(json.dumps(rp)[:3000])
