"""C09: a failing random source yields a prompt (false, error), never a hang or a pass.

model    : Workflow.tla (sequential, every fault position x with/without data) and WorkflowFast.tla
           (fault positions x short reads x W<=3): FaultMeansFalse, Terminates, WorkersExit; the as-is
           protocol (no Done on error) must violate Terminates (vacuity guard)
channel S: failure injected through the caller-supplied reader at dense byte offsets (sample
           boundaries +-1, first/last byte) x {io.EOF, ErrUnexpectedEOF, custom, error with partial read,
           stream shorter than required} x all seven functions; Fast variants for NumCPU in {1,2,16}
channel T: every execution validated by TraceWorkflow.tla: returns (no hang, progress-aware watchdog
           + reproduction), verdict false, error non-nil, no goroutine left, no crash
"""
import json, random
import vlib
from checks import wf
from checks.c08 import fcfg

PROP = "C09"
KINDS = ["eof", "unexpected", "custom", "partial", "transient", "temporary", "temptransient", "parttransient"]


def model(run, thorough):
    S, C = (4, 3) if thorough else (3, 2)
    for F in list(range(0, S * C + 1)) + [99]:
        for ewd in ("TRUE", "FALSE"):
            c = ("CONSTANTS S=%d C=%d FailAt=%d ErrWithData=%s\nSPECIFICATION Spec\nINVARIANTS FreshConsecutive ExactConsumption NeverReadsBeyond "
                 "FaultMeansFalse NoFaultNoErr LateFaultHarmless FaultInsideFails\nPROPERTY Terminates\nCHECK_DEADLOCK FALSE\n" % (S, C, F, ewd))
            r = vlib.tlc_ok(vlib.run_tlc("Workflow", c, workers=2, timeout=600), "Workflow FailAt=%d" % F)
            run.add_tlc(r, "Workflow S=%d C=%d FailAt=%d ErrWithData=%s" % (S, C, F, ewd))
    W, S, C = (3, 3, 2) if thorough else (2, 3, 2)
    for F in range(0, S * C):
        r = vlib.tlc_ok(vlib.run_tlc("WorkflowFast", fcfg(W, S, C, F=F, live=True), timeout=1800), "WorkflowFast FailAt=%d" % F)
        run.add_tlc(r, "WorkflowFast W=%d S=%d C=%d FailAt=%d safety+liveness" % (W, S, C, F))
    vlib.coverage_audit(run, "WorkflowFast", [fcfg(2, 3, 2, F=0), fcfg(2, 3, 2, F=3), fcfg(2, 3, 2, F=5)], ["ReadOK", "ReadFail", "Lock", "Unlock", "ErrDone", "Done", "MainDecide", "Exit"])
    vlib.coverage_audit(run, "Workflow", ["CONSTANTS S=3 C=2 FailAt=3 ErrWithData=TRUE\nSPECIFICATION Spec\nCHECK_DEADLOCK FALSE\n",
                                          "CONSTANTS S=3 C=2 FailAt=99 ErrWithData=FALSE\nSPECIFICATION Spec\nCHECK_DEADLOCK FALSE\n",
                                          "CONSTANTS S=3 C=2 FailAt=2 ErrWithData=FALSE\nSPECIFICATION Spec\nCHECK_DEADLOCK FALSE\n"], ["ReadOK", "ReadFail", "Round", "Decide"])
    r = vlib.run_tlc("WorkflowFast", fcfg(2, 3, 2, F=3, rf="FALSE", lk="FALSE", de="FALSE", se="FALSE", live=True, inv=False), timeout=600)
    if not (r.violated and "Temporal" in str(r.violated)):
        raise vlib.InfraError("vacuity guard: as-is protocol with a failing source should violate Terminates, got %s" % r.violated)
    run.configs.append({"config": "negative: as-is, FailAt=3", "violates": "Terminates"})
    # a source that fails once and then recovers: the first error must stay recorded
    for F in range(0, S * C):
        r = vlib.tlc_ok(vlib.run_tlc("WorkflowFast", fcfg(W, S, C, F=F, live=True, tr="TRUE"), timeout=1800), "WorkflowFast transient FailAt=%d" % F)
        run.add_tlc(r, "WorkflowFast W=%d S=%d C=%d transient failure at %d, safety+liveness" % (W, S, C, F))
    r = vlib.run_tlc("WorkflowFast", fcfg(2, 3, 2, F=2, tr="TRUE", ns="TRUE"), timeout=600)
    if r.violated != "FaultMeansFalse":
        raise vlib.InfraError("vacuity guard: a non-sticky error with a transient failure should violate FaultMeansFalse, got %s" % r.violated)
    run.configs.append({"config": "negative: NonSticky + Transient", "violates": "FaultMeansFalse"})
    r = vlib.run_tlc("WorkflowFast", fcfg(2, 3, 2, F=3, se="FALSE"), timeout=600)
    if r.violated != "FaultMeansFalse":
        raise vlib.InfraError("vacuity guard: error not surfaced should violate FaultMeansFalse, got %s" % r.violated)
    run.configs.append({"config": "negative: SurfaceError=FALSE", "violates": "FaultMeansFalse"})


def offsets(s, sb, dense, rng):
    total = s * sb
    o = {0, 1, sb - 1, sb, sb + 1, total - 1, total - sb, total - sb - 1, total - sb + 1}
    ks = range(1, s) if dense else sorted(set([1, 2, s // 2, s - 1] + [rng.randrange(1, s) for _ in range(3)]))
    for k in ks:
        o |= {k * sb - 1, k * sb, k * sb + 1}
    for _ in range(40 if dense else 6):
        o.add(rng.randrange(total))
    return sorted(x for x in o if 0 <= x < total)


def run(tier):
    run = vlib.Run(PROP, tier, level="fault_enumeration")
    thorough = tier == "thorough"
    rng = random.Random(vlib.seed())
    model(run, thorough)
    hz = vlib.go_build()
    jid = 0
    batches = []   # (taskset, env, jobs, meta)
    seqjobs, seqmeta = [], {}
    for fn in ("PeriodDetect", "PowerOnDetect", "FactoryDetect"):
        s, sb, items, _ = wf.KINDS[fn]
        offs = offsets(s, sb, thorough or fn == "PeriodDetect", rng)
        for off in offs:
            for kind in KINDS + ["short"]:
                jid += 1
                if kind == "short":
                    j = wf.mkjob(jid, fn, policy=rng.choice(["full", "fixed"]), size=4093, tag="short stream len=%d" % off)
                    j["stream"]["len"] = off
                else:
                    j = wf.mkjob(jid, fn, policy=rng.choice(["full", "fixed", "halves"]), size=4093, fail_at=off, fail_kind=kind, tag="%s@%d" % (kind, off))
                if jid % 3 == 0:
                    j["reader"]["seekable"] = True      # the source also offers ReadAt / Seek (a file, a bytes.Reader)
                    j["tag"] += " seekable"
                seqjobs.append(j)
                seqmeta[jid] = {"cnt": [s] * items, "hist": [wf.flat(s)] * items, "facts": {"kind": kind, "off": off}}
    batches.append((None, None, seqjobs, seqmeta))
    for ts, w in [("0", 1), ("0-1", 2), (None, 16)]:
        jobs, meta = [], {}
        for fn in ("PeriodDetectFast", "PowerOnDetectFast", "FactoryDetectFast"):
            s, sb, items, _ = wf.KINDS[fn]
            offs = offsets(s, sb, thorough and fn == "PeriodDetectFast", rng)
            if not thorough and fn != "PeriodDetectFast":
                offs = offs[:6] + rng.sample(offs[6:], min(6, len(offs) - 6))
            for off in offs:
                for kind in KINDS + ["short"]:
                    jid += 1
                    pol = rng.choice(["full", "fixed", "halves", "random"])
                    if kind == "short":
                        j = wf.mkjob(jid, fn, policy=pol, size=4093, rseed=jid, tag="W=%d short stream len=%d" % (w, off),
                                     round_delay_us=rng.choice([0, 100]))
                        j["stream"]["len"] = off
                    else:
                        j = wf.mkjob(jid, fn, policy=pol, size=4093, rseed=jid, fail_at=off, fail_kind=kind, tag="W=%d %s@%d" % (w, kind, off),
                                     round_delay_us=rng.choice([0, 100]), delay_us=rng.choice([0, 30]) if pol in ("full", "halves") else 0)
                    if jid % 3 == 0:
                        j["reader"]["seekable"] = True
                        j["tag"] += " seekable"
                    jobs.append(j)
                    meta[jid] = {"cnt": [s] * items, "hist": [wf.flat(s)] * items, "facts": {"kind": kind, "off": off, "w": w}}
        batches.append((ts, None, jobs, meta))
    njobs = 0
    for ts, env, jobs, meta in batches:
        wf.run_and_validate(run, hz, jobs, meta, taskset=ts, env=env, nproc=8 if ts is None else 2)
        njobs += len(jobs)
        for j in jobs:
            run.nontriv("%s|%s" % (j["fn"], j["tag"]))
    run.sample({"job": {k: v for k, v in seqjobs[3].items() if k != "items"}})
    run.sample({"job": {k: v for k, v in batches[1][2][0].items() if k != "items"}})

    # ---- SingleDetect: fault at every offset
    sj = []
    for nb in (16, 40, 1280, 4096):
        offs = range(nb) if (thorough or nb <= 40) else sorted(set([0, 1, nb - 1, nb - 2] + [rng.randrange(nb) for _ in range(40)]))
        for off in offs:
            for kind in KINDS + ["short"]:
                jid += 1
                if kind == "short":
                    sj.append(wf.mk_single(jid, nb, stream_seed=jid, slen=off, tag="single nb=%d short@%d" % (nb, off)))
                else:
                    sj.append(wf.mk_single(jid, nb, stream_seed=jid, policy=rng.choice(["full", "fixed", "one"]), size=7, fail_at=off, fail_kind=kind,
                                           tag="single nb=%d %s@%d" % (nb, kind, off)))
    for nb in list(range(0, 16)):
        jid += 1
        sj.append(wf.mk_single(jid, nb, stream_seed=jid, tag="single nb=%d too short" % nb))
    rows, crashed = vlib.run_hz_jobs(hz, "workflow", sj, nproc=8)
    if crashed:
        for c in crashed:
            run.violation({"kind": "crash-single"}, {"job": c["first_missing"], "stderr": c["stderr"][-1500:]})
    events = [wf.single_event(j, rows[j["id"]], False) for j in sj if rows.get(j["id"])]
    acc, rej, gen = vlib.validate_trace("TraceWorkflow", events, timeout=900, max_rej=4)
    run.states += acc; run.transitions += gen; run.traces += acc; run.evaluations += len(events)
    byid = {j["id"]: j for j in sj}
    for e in rej:
        run.violation({"kind": "single", "tag": byid[e["id"]]["tag"]}, {"job": byid[e["id"]], "rejected_event": e})
    for j in sj:
        run.nontriv("single|" + j["tag"])
    run.sample({"single_event": events[5]})
    run.rule = ("one execution per (function, failure offset, failure kind, worker count / read policy); offsets: 0, 1, every sample boundary and +-1 "
                "(sampled boundaries for the 10^6-bit workflows in quick), last byte, random; all distinct, all non-trivial (each is a fault)")
    run.explanation = "Fault positions are exhaustive on the models (chunk granularity) and dense at byte granularity against the real code."
    run.assumptions = ["a hang is declared only after a full watchdog period without any Read or runner call, and must reproduce",
                       "goroutine leak = runtime.NumGoroutine() above the pre-call level after a 1 s settle"]
    run.finish()


def replay(path):
    from checks import c07
    c07.replay(path)
