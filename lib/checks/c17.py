"""C17: tests respect the symmetries their definitions imply (Symmetry.tla)."""
import json, os, random
import vlib

PROP = "C17"


def run(tier):
    run = vlib.Run(PROP, tier)
    thorough = tier == "thorough"
    rng = random.Random(vlib.seed())
    hz = vlib.go_build()
    cfg = "CONSTANTS MinN=8 MaxN=%d Stride=%d\nSPECIFICATION Spec\nINVARIANT SymmetryHolds\nCHECK_DEADLOCK FALSE\n" % (12 if thorough else 10, 2 * vlib.NCPU)
    r = vlib.tlc_ok(vlib.run_tlc("Symmetry", cfg, timeout=3000), "Symmetry")
    run.add_tlc(r, "Symmetry: every table entry against the Def operators on all sequences of 8..%d bits (every rotation amount)" % (12 if thorough else 10))
    table = [v for v in r.json if v.get("ev") == "table"]
    if not table:
        raise vlib.InfraError("Symmetry.tla did not emit its table")
    rows = [x for x in table[0]["rows"] if x["rel"] != "none"]
    inputs = []
    iid = 0
    small = [(100, True), (128, True), (131, True), (1031, False), (4096, False), (8967 + 5, False)]
    for n, allrot in small:
        # drifting / degenerate inputs matter: a walk that peaks on its very last step, a final run longer than the cut-off, ...
        for mode in ["uni", "bias", "periodic", "heavy", "heavy", "step", "const1", "runsbias", "onehot"]:
            iid += 1
            inputs.append({"id": iid, "mode": mode, "n": n, "seed": rng.randrange(1 << 40), "allrot": allrot})
    big = [6272 + 9, 20000, 100003] + ([750007, 1000000, 1000003] if thorough else [1000003])
    for n in big:
        for mode in (["uni", "runsbias", "heavy", "step"] if thorough else ["uni", "heavy"][: 1 + (n < 1000000)]):
            iid += 1
            inputs.append({"id": iid, "mode": mode, "n": n, "seed": rng.randrange(1 << 40), "allrot": False})
    inputs.sort(key=lambda i: -i["n"])
    tmp = vlib.scratch("sym")
    from concurrent.futures import ThreadPoolExecutor
    # several inputs per driver process, longest first: a result must not depend on the lengths handled before
    ng = min(vlib.NCPU, max(1, len(inputs) // 3))
    groups = [inputs[i::ng] for i in range(ng)]
    # the groups see different numbers of processors (all, 3, 7, 1, 5): a relation must hold whatever a parallelised
    # implementation makes of that
    procs = ["3", "7", None, "1", "5"]
    gprocs = {g[0]["id"]: procs[gi % len(procs)] for gi, g in enumerate(groups)}
    def one(grp):
        jp = os.path.join(tmp, "j%d.json" % grp[0]["id"]); op = os.path.join(tmp, "o%d.ndjson" % grp[0]["id"])
        with open(jp, "w") as fh:
            json.dump({"rows": rows, "inputs": grp}, fh)
        gp = gprocs[grp[0]["id"]]
        p = vlib.run_bin(hz, ["symmetry", jp, op], timeout=6000, env={"GOMAXPROCS": gp} if gp else None)
        if p.returncode != 0:
            raise vlib.InfraError("hz symmetry failed: " + (p.stderr or "")[-800:])
        return vlib.read_ndjson(op)
    with ThreadPoolExecutor(max_workers=vlib.NCPU) as ex:
        events = [e for part in ex.map(one, groups) for e in part]
    acc, rej, gen = vlib.validate_trace("TraceSymmetry", events, timeout=3000, max_rej=4)
    run.states += acc; run.transitions += gen; run.traces += acc; run.evaluations += len(events)
    combos = set()
    for e in events:
        combos.add((e["t"], e["tau"]))
        run.nontriv("%s|%s|%s|%s|%d|%d" % (e["t"], e["tau"], e["param"], e["taup"], e["n"], e["seed"]))
    claimed = {(x["t"], x["tau"]) for x in rows}
    missing = claimed - combos
    if missing:
        raise vlib.InfraError("vacuity: table entries never exercised: %s" % sorted(missing))
    run.extra["table_entries_claimed"] = len(claimed)
    run.sample({"sym_event": events[len(events) // 2]})
    byid = {i["id"]: i for i in inputs}
    prefix = {g[k]["id"]: g[:k] for g in groups for k in range(len(g))}
    gof = {x["id"]: gprocs[g[0]["id"]] for g in groups for x in g}
    for e in rej:
        run.violation({"kind": "symmetry", "test": e["t"], "tau": e["tau"], "param": e["param"], "taup": e["taup"], "n": e["n"], "mode": e["mode"]},
                      {"cmd": "symmetry", "rows": [x for x in rows if x["t"] == e["t"] and x["tau"] == e["tau"]], "input": byid[e["id"]],
                       "before_in_same_process": prefix.get(e["id"], []), "all_rows": rows, "gomaxprocs": gof.get(e["id"]), "event": e})
    run.rule = ("model: every relation of the table checked on the integer summaries of all sequences of 8..10 (12) bits (all rotation amounts, a block rotation, a complemented tail); "
                "code: pairs (x, tau x) for every claimed table entry x documented parameters, every rotation amount at n = 100/128/131, rotation amounts {1, 7, m-1, n/2, n-1, random} "
                "and random block permutations / tail contents up to 10^6 bits; relation checked to 1e-9")
    run.explanation = "No oracle is needed at sizes where an exact one is slow: the relation itself is judged by TLC from the table in Symmetry.tla."
    run.assumptions = ["1e-9 allows for a different floating-point summation order (up to 1.5e-10 observed for approximate entropy at 10^6 bits); a one-count slip moves P by more than 1e-7 at that size"]
    run.finish()


def replay(path):
    rp = json.load(open(path))["replay"]
    hz = vlib.go_build()
    tmp = vlib.scratch("rs")
    jp = os.path.join(tmp, "j.json"); op = os.path.join(tmp, "o.ndjson")
    with open(jp, "w") as fh:
        # the inputs the process had handled before (with the full table), then the input itself
        json.dump({"rows": rp.get("all_rows") or rp["rows"], "inputs": rp.get("before_in_same_process", []) + [rp["input"]]}, fh)
    vlib.run_bin(hz, ["symmetry", jp, op], timeout=6000, env={"GOMAXPROCS": rp["gomaxprocs"]} if rp.get("gomaxprocs") else None)
    ev0 = rp["event"]
    for e in vlib.read_ndjson(op):
        if e["id"] == ev0["id"] and e["t"] == ev0["t"] and e["tau"] == ev0["tau"] and e["param"] == ev0["param"] and e["taup"] == ev0["taup"] and bool(e.get("bytes")) == bool(ev0.get("bytes")):
            print(json.dumps(e))
