"""Channel T for the statistical tests: large seeded inputs -> proxy summary + real results -> TraceStats.tla."""
import json, os
import vlib


def trace_inputs(run, hz, inputs, module="TraceStats", nproc=None, timeout=3000, also386=True, arch="amd64", max386=1100000):
    if not inputs:
        return
    if also386:
        # the same large inputs once more through a driver built for a platform whose int has 32 bits (GOARCH=386):
        # the values must be the same (counts of 10^6 and their squares do not fit 32 bits)
        try:
            hz386 = vlib.go_build(goarch="386")
            ok386 = vlib.can_run_386(hz386)
        except vlib.InfraError:
            ok386 = False
        run.extra["int32_platform_pass"] = bool(ok386)
        if ok386:
            sub = [dict(i, id=i["id"] + 100000) for i in inputs if i["n"] <= max386]
            if sub:
                trace_inputs(run, hz386, sub, module=module, nproc=nproc, timeout=timeout, also386=False, arch="386")
    from concurrent.futures import ThreadPoolExecutor
    # few processes, each with inputs of several lengths in descending order (the driver then repeats them ascending):
    # a result must not depend on the lengths the process has handled before
    k = max(1, min(nproc or 8, (len(inputs) + 2) // 3))
    tmp = vlib.scratch("statt")
    srt = sorted(inputs, key=lambda x: -x["n"])
    parts = [srt[i::k] for i in range(k)]

    def one(idx):
        jp = os.path.join(tmp, "j%d.json" % idx); op = os.path.join(tmp, "o%d.ndjson" % idx)
        with open(jp, "w") as fh:
            json.dump({"inputs": parts[idx]}, fh)
        p = vlib.run_bin(hz, ["stats-trace", jp, op], timeout=timeout)
        if p.returncode != 0:
            raise vlib.InfraError("hz stats-trace failed rc=%s: %s" % (p.returncode, (p.stderr or "")[-1500:]))
        return vlib.read_ndjson(op)

    with ThreadPoolExecutor(max_workers=k) as ex:
        events = [e for part in ex.map(one, range(k)) for e in part]
    for e in events:
        e["arch"] = arch
        if "proxy_panic" in e:
            raise vlib.InfraError("spec proxy panicked: " + e["proxy_panic"])
        # totality: every entry has the same fields
        for en in e["entries"]:
            en.setdefault("P2", "0"); en.setdefault("Q2", "0"); en.setdefault("panic", ""); en.setdefault("mutated", False); en.setdefault("nondet", False)
            en.pop("pass", None); en.pop("name", None)
    acc, rej, gen = vlib.validate_trace(module, events, timeout=timeout, max_rej=4)
    run.states += acc
    run.transitions += gen
    run.traces += acc
    run.evaluations += len(events)
    for e in events:
        run.nontriv("L3|%s|%s|%s|%s" % (e["t"], e.get("m", e.get("k", e.get("d", ""))), e["n"], e["seed"]))
    if events:
        e = events[0]
        run.sample({"L3_event": {k: e[k] for k in e if k not in ("stat", "entries")}, "entries": e["entries"][:1]})
    for e in rej:
        facts = {"test": e["t"], "n": e["n"], "mode": e["mode"], "level": "L3", "arch": e.get("arch", "amd64")}
        for pk in ("m", "k", "d", "forward", "sym"):
            if pk in e:
                facts[pk] = e[pk]
        ev = dict(e)
        if len(json.dumps(ev.get("stat", {}))) > 4000:
            ev["stat"] = "(large)"
        run.violation(facts, {"cmd": "stats-trace", "arch": e.get("arch", "amd64"), "input": {"mode": e["mode"], "n": e["n"], "seed": e["seed"]}, "event": ev})
