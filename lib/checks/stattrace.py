"""Channel T for the statistical tests: large seeded inputs -> proxy summary + real results -> TraceStats.tla."""
import json, os
import vlib


def trace_inputs(run, hz, inputs, module="TraceStats", nproc=None, timeout=3000):
    if not inputs:
        return
    from concurrent.futures import ThreadPoolExecutor
    # few processes, each with inputs of several lengths in descending order (the driver then repeats them ascending):
    # a result must not depend on the lengths the process has handled before
    k = max(1, min(nproc or 8, (len(inputs) + 2) // 3))
    tmp = vlib.scratch("statt")
    srt = sorted(inputs, key=lambda x: -x["n"])
    parts = [srt[i::k] for i in range(k)]

    def one(idx):
        jp = os.path.join(tmp, "j%d.json" % idx); op = os.path.join(tmp, "o%d.ndjson" % idx)
        with open(jp, "w") as fh:
            json.dump({"inputs": parts[idx]}, fh)
        p = vlib.run_bin(hz, ["stats-trace", jp, op], timeout=timeout)
        if p.returncode != 0:
            raise vlib.InfraError("hz stats-trace failed rc=%s: %s" % (p.returncode, (p.stderr or "")[-1500:]))
        return vlib.read_ndjson(op)

    with ThreadPoolExecutor(max_workers=k) as ex:
        events = [e for part in ex.map(one, range(k)) for e in part]
    for e in events:
        if "proxy_panic" in e:
            raise vlib.InfraError("spec proxy panicked: " + e["proxy_panic"])
        # totality: every entry has the same fields
        for en in e["entries"]:
            en.setdefault("P2", "0"); en.setdefault("Q2", "0"); en.setdefault("panic", ""); en.setdefault("mutated", False); en.setdefault("nondet", False)
            en.pop("pass", None); en.pop("name", None)
    acc, rej, gen = vlib.validate_trace(module, events, timeout=timeout, max_rej=4)
    run.states += acc
    run.transitions += gen
    run.traces += acc
    run.evaluations += len(events)
    for e in events:
        run.nontriv("L3|%s|%s|%s|%s" % (e["t"], e.get("m", e.get("k", e.get("d", ""))), e["n"], e["seed"]))
    if events:
        e = events[0]
        run.sample({"L3_event": {k: e[k] for k in e if k not in ("stat", "entries")}, "entries": e["entries"][:1]})
    for e in rej:
        facts = {"test": e["t"], "n": e["n"], "mode": e["mode"], "level": "L3"}
        for pk in ("m", "k", "d", "forward", "sym"):
            if pk in e:
                facts[pk] = e[pk]
        ev = dict(e)
        if len(json.dumps(ev.get("stat", {}))) > 4000:
            ev["stat"] = "(large)"
        run.violation(facts, {"cmd": "stats-trace", "input": {"mode": e["mode"], "n": e["n"], "seed": e["seed"]}, "event": ev})
