"""C14: stuck-at and short-cycle sources are always rejected (StuckAt.tla + end-to-end runs with the real runners)."""
import json, random
import vlib
from checks import wf
from checks.c11 import single_trace_event

PROP = "C14"


def run(tier):
    run = vlib.Run(PROP, tier)
    thorough = tier == "thorough"
    rng = random.Random(vlib.seed())
    r = vlib.tlc_ok(vlib.run_tlc("StuckAt", "INIT Init\nNEXT Next\nCHECK_DEADLOCK FALSE\n", workers=2, timeout=900), "StuckAt")
    run.add_tlc(r, "StuckAt: poker bound for every period 1..64, decision chain, constant contents")
    hz = vlib.go_build()
    jobs, meta = [], {}
    jid = 0
    consts = list(range(256)) if thorough else sorted(set([0, 255, 0x55, 0xAA, 1, 0x80, 0x0F] + [rng.randrange(256) for _ in range(40)]))
    periods = list(range(2, 65)) if thorough else sorted(set([2, 3, 7, 8, 16, 31, 32, 63, 64] + [rng.randrange(2, 65) for _ in range(10)]))
    streams = [("const", {"kind": "const", "byte": b, "len": -1}) for b in consts]
    for p in periods:
        variants = [[0] * (p - 1) + [1], [rng.randrange(256) for _ in range(p)], [(i * 37 + 11) % 256 for i in range(p)]]
        if p % 2 == 0:
            variants.append([0x55, 0xAA] * (p // 2))
        for per in (variants if thorough else variants[:2]):
            streams.append(("period%d" % p, {"kind": "periodic", "period": per, "len": -1}))
    for name, st in streams:
        for fn in ("PeriodDetect", "PeriodDetectFast"):
            jid += 1
            j = wf.mkjob(jid, fn, mode="real", stream=st, policy=rng.choice(["full", "fixed", "random"]), size=997, rseed=jid, tag=name, timeout_ms=60000)
            j["mustreject"] = True
            jobs.append(j)
    # the 10^6-bit workflows: the stream (00)^63 01 reaches the block 0^499 1 (block 127) on which the pinned commit crashed
    big = [("lc-oob", {"kind": "periodic", "period": [0] * 63 + [1], "len": -1}), ("const00", {"kind": "const", "byte": 0, "len": -1})]
    if thorough:
        big += [("constFF", {"kind": "const", "byte": 255, "len": -1}), ("alt", {"kind": "periodic", "period": [0x55, 0xAA], "len": -1}),
                ("p64rand", {"kind": "periodic", "period": [rng.randrange(256) for _ in range(64)], "len": -1}),
                ("p17", {"kind": "periodic", "period": [rng.randrange(256) for _ in range(17)], "len": -1})]
    for name, st in big:
        # the sequential 10^6-bit workflows cost 24 s / 60 s per stream: one stream in quick, all in thorough
        for fn in (["PowerOnDetectFast", "FactoryDetectFast"] + (["PowerOnDetect", "FactoryDetect"] if (thorough or name == "const00") else [])):
            jid += 1
            j = wf.mkjob(jid, fn, mode="real", stream=st, policy="fixed", size=65536, rseed=jid, tag=name, timeout_ms=600000)
            j["mustreject"] = True
            j["noMatrix"] = True
            jobs.append(j)
    # big jobs first, one per process slot
    jobs.sort(key=lambda j: 0 if j.get("noMatrix") else 1)
    rows, crashed = vlib.run_hz_jobs(hz, "workflow", jobs, nproc=vlib.NCPU if not thorough else 8, timeout=6000)
    # the parallel variants once more in processes that see a single processor (GOMAXPROCS=1; one-CPU affinity) and three:
    # a broken source must be rejected there too, not waited for
    envjobs = []
    pick = [x for x in streams if x[0] == "const"][:3] + [x for x in streams if x[0] != "const"][:4]
    for label, env, ts in (("GOMAXPROCS=1", {"GOMAXPROCS": "1"}, None), ("1 cpu", None, "0"), ("GOMAXPROCS=3", {"GOMAXPROCS": "3"}, None)):
        ej = []
        for name, st in pick:
            jid += 1
            j = wf.mkjob(jid, "PeriodDetectFast", mode="real", stream=st, policy="full", rseed=jid, tag=name + " " + label, timeout_ms=20000)
            j["mustreject"] = True
            ej.append(j)
        jid += 1
        j = wf.mkjob(jid, "PowerOnDetectFast", mode="real", stream={"kind": "const", "byte": 0, "len": -1}, policy="fixed", size=65536, rseed=jid, tag="const00 " + label, timeout_ms=150000)
        j["mustreject"] = True
        j["noMatrix"] = True
        ej.append(j)
        r2, c2 = vlib.run_hz_jobs(hz, "workflow", ej, nproc=4, timeout=6000, env=env, taskset=ts)
        rows.update(r2)
        crashed += c2
        jobs += ej
    for c in crashed:
        j = c["first_missing"]
        if j is None:
            raise vlib.InfraError("driver died without a culprit: " + c["stderr"][-500:])
        run.violation({"kind": "crash", "fn": j["fn"], "stream": j["tag"]}, {"job": j, "stderr": c["stderr"][-2500:]})
        rows[j["id"]] = None
    groups = []
    for j in jobs:
        r = rows.get(j["id"])
        if not r or r.get("skipped"):
            continue
        s, sb, items, _ = wf.KINDS[j["fn"]]
        if "pass" in r:
            cnt = [sum(1 for x in r["pass"][k] if x) for k in range(items)]
        else:
            cnt = [0] * items
        groups.append(wf.trace_events(j, r, cnt, []))
    acc, rej, gen = vlib.validate_trace("TraceWorkflow", None, groups=groups, resync=lambda e: e["ev"] == "begin", max_rej=6, timeout=3000)
    run.states += acc; run.transitions += gen
    rej_ids = {e["id"] for e in rej}
    run.traces += len(groups) - len(rej_ids)
    run.evaluations += len(groups)
    byid = {j["id"]: j for j in jobs}
    for i in rej_ids:
        r = rows[i]
        run.violation({"kind": "not-rejected", "fn": byid[i]["fn"], "stream": byid[i]["tag"]},
                      {"job": byid[i], "result": {k: v for k, v in r.items() if k not in ("events", "qs", "pass", "dump")}})
    for j in jobs:
        run.nontriv("%s|%s|%s" % (j["fn"], j["tag"], json.dumps(j["stream"])[:120]))
    run.sample({"job": {k: v for k, v in jobs[-1].items() if k not in ("items",)}})
    # ---- SingleDetect on all-zero / all-one content at every length
    lens = list(range(16, 4097)) if thorough else sorted(set(list(range(16, 200)) + list(range(200, 4097, 16)) + [1279, 1280, 1281, 4096]))
    lens += [10000, 125000]
    # "every admissible length": powers of two and their neighbourhoods up to 2^20 (counter widths, pooled buffers)
    for kk in range(13, 21 if thorough else 19):
        lens += [(1 << kk) - 1, 1 << kk, (1 << kk) + 1, (1 << kk) * 17 // 16, (1 << kk) * 3 // 2]
    sj = []
    healthy = set()
    for nb in lens:
        for b in (0, 255):
            jid += 1
            sj.append(wf.mk_single(jid, nb, stream={"kind": "const", "byte": b, "len": -1}, policy=rng.choice(["full", "random"]), rseed=jid, tag="single const %d" % b))
        if nb <= 4096 and rng.random() < 0.25:
            # the detection is called repeatedly in the field: healthy requests of other sizes in between (call histories)
            jid += 1
            sj.append(wf.mk_single(jid, rng.choice([nb + 4144, 4160, 2 * nb + 7]), stream={"kind": "seeded", "seed": rng.randrange(1 << 40), "len": -1}, tag="single healthy"))
            healthy.add(jid)
    rng.shuffle(sj)
    rows, crashed = vlib.run_hz_jobs(hz, "workflow", sj, nproc=8)
    if crashed:
        run.violation({"kind": "crash-single"}, {"job": crashed[0]["first_missing"], "stderr": crashed[0]["stderr"][-1000:]})
    # the same on a platform whose int has 32 bits (GOARCH=386 build of the driver): the larger requests and a few small ones
    try:
        hz386 = vlib.go_build(goarch="386")
        ok386 = vlib.can_run_386(hz386)
    except vlib.InfraError:
        ok386 = False
    run.extra["int32_platform_pass"] = bool(ok386)
    if ok386:
        sub = []
        for j in sj:
            if j["id"] not in healthy and (j["numByte"] >= 40000 or j["numByte"] in (16, 40, 1280, 4096)) and j["numByte"] <= 1100000:
                jid += 1
                sub.append(dict(j, id=jid, tag=j["tag"] + " GOARCH=386"))
        r3, c3 = vlib.run_hz_jobs(hz386, "workflow", sub, nproc=4)
        if c3:
            run.violation({"kind": "crash-single", "arch": "386"}, {"job": c3[0]["first_missing"], "stderr": c3[0]["stderr"][-1000:]})
        rows.update(r3)
        sj += sub
    events = [single_trace_event(j, rows[j["id"]], mustreject=j["id"] not in healthy) for j in sj if rows.get(j["id"])]
    acc, rej, gen = vlib.validate_trace("TraceSingle", events, timeout=3000, max_rej=4)
    run.states += acc; run.transitions += gen; run.traces += acc; run.evaluations += len(events)
    sbyid = {j["id"]: j for j in sj}
    for e in rej:
        run.violation({"kind": "single-const", "nb": e["numByte"]}, {"job": sbyid[e["id"]], "event": {k: v for k, v in e.items() if k != "h8"}})
    for e in events:
        run.nontriv("single|%d|%d" % (e["numByte"], e["id"]))
    run.rule = ("end-to-end runs with the real runners: PeriodDetect / PeriodDetectFast on constant streams (sampled; thorough all 256) and on periodic streams of sampled periods 2..64 "
                "(lone one, random, affine, alternating contents), PowerOn/Factory Fast (thorough also sequential) on (00)^63 01 and constants; SingleDetect on 0x00.. / 0xFF.. at every length; "
                "each distinct (function, stream) counts once")
    run.explanation = ("StuckAt.tla proves on the model that at most 64 distinct byte values per sample force the poker item to fail and the verdict to be false; "
                       "the runs bind that to the real workflows (a crash, hang or a true verdict is a violation).")
    run.assumptions = ["periodic contents are sampled; the composition argument covers all contents on the model"]
    run.finish()


def replay(path):
    from checks import c07
    c07.replay(path)
