"""C05: the discrete-Fourier-transform test returns the standard-defined P and Q values (Spectral.tla)."""
import json, os, random
import vlib
from checks import statlib, stattrace

PROP = "C05"
BASE = 'FftN=8 FftLog=3 Variant="go" LiftN=%d'


def gen(run, family, minn=2, maxn=8, sizes=(100,), modes=("uni",), seeds=(1,), liftn=1024, inv=()):
    mc = statlib.mc_module("GenSpectral", sizes, modes, seeds)
    cfg = ('CONSTANTS Family="%s" MinN=%d MaxN=%d Stride=%d Sizes<-MCSizes Modes<-MCModes Seeds<-MCSeeds %s\nSPECIFICATION Spec\n%sCHECK_DEADLOCK FALSE\n'
           % (family, minn, maxn, 2 * vlib.NCPU, BASE % liftn, "".join("INVARIANT %s\n" % i for i in inv)))
    r = vlib.tlc_ok(vlib.run_tlc("MCGen", cfg, timeout=3000, extra_files={"MCGen.tla": mc}), "GenSpectral " + family)
    run.add_tlc(r, "GenSpectral %s" % family)
    seen, out = set(), []
    for v in r.json:
        if v.get("ev") != "vec":
            continue
        k = json.dumps(v["label"], sort_keys=True)
        if k not in seen:
            seen.add(k); out.append(v)
    return out


def run(tier):
    run = vlib.Run(PROP, tier)
    thorough = tier == "thorough"
    rng = random.Random(vlib.seed())
    hz = vlib.go_build()
    v1 = gen(run, "dft1", 2, 12 if thorough else 10)
    statlib.replay(run, hz, v1)
    run.sample({"L1": {"bits": "".join(map(str, v1[len(v1) // 2]["bits"])), "call": {k: v for k, v in v1[len(v1) // 2]["calls"][0].items() if k != "alts"}}})
    sizes = (13, 16, 17, 31, 33, 64, 65, 100, 127, 128, 129, 255, 257) + ((200, 256, 400, 511, 512) if thorough else ())
    seeds = tuple(rng.randrange(1, 40000) for _ in range(3 if thorough else 1))
    v2 = gen(run, "dft2", sizes=sizes, modes=("uni", "const0", "const1", "alt", "per3", "per8", "per16n", "bias25"), seeds=seeds)
    statlib.replay(run, hz, v2)
    amb = sum(1 for v in v1 + v2 if v["calls"][0]["amb"] > 0)
    run.extra["vectors_with_undecided_bins"] = amb
    run.sample({"L2": {"label": v2[3]["label"], "call": {k: v for k, v in v2[3]["calls"][0].items() if k != "alts"}}})
    # lifting lemma: periodic words at n = 2^e (sharp peaks, exact zero bins) up to 2^20
    for e in ([10, 14, 17, 20] if thorough else [10, 16]):
        vl = gen(run, "lift", seeds=tuple(rng.randrange(1, 40000) for _ in range(2)) + (7,), liftn=1 << e, inv=("LiftLemma",))
        statlib.replay(run, hz, vl, check_proxy=False)
    # large inputs: independent recursive FFT in the driver as proxy (tied to the exact spectrum on every small vector above)
    inputs = []
    iid = 0
    sizes3 = [1000, 4097, 20000, 65537, 1000000] + ([999999, 131072, 2000000, 1048577] if thorough else [])
    for n in sizes3:
        for mode in (["uni", "bias", "runsbias", "periodic", "alt", "const1"] if thorough else ["uni", "bias", "periodic"][iid % 2:][:2]):
            iid += 1
            inputs.append({"id": iid, "mode": mode, "n": n, "seed": rng.randrange(1 << 40), "calls": [{"t": "dft"}]})
    stattrace.trace_inputs(run, hz, inputs, max386=1100000 if thorough else 70000)
    # acceptance probe at the upper end of the range (2^26 < n <= 2^27; the 10^8-bit sample size lies here): the call is
    # started and watched for a few seconds -- a refusal shows at once, the full computation (5 GiB, minutes) is left to the
    # thorough tier
    tmpp = vlib.scratch("dftprobe")
    evp = []
    for k, n in enumerate([(1 << 26) + 1, 100000000, 1 << 27]):
        jp = os.path.join(tmpp, "j%d.json" % k); op = os.path.join(tmpp, "o%d.ndjson" % k)
        with open(jp, "w") as fh:
            json.dump({"n": n, "mode": "alt", "seed": 1, "t": "dft", "waitMs": 2500}, fh)
        pp = vlib.run_bin(hz, ["probe", jp, op], timeout=600)
        if pp.returncode != 0 or not os.path.exists(op):
            raise vlib.InfraError("hz probe (n=%d) failed: %s" % (n, (pp.stderr or "")[-600:]))
        evp += vlib.read_ndjson(op)
    accp, rejp, genp = vlib.validate_trace("TraceRegistry", evp, timeout=600, max_rej=4)
    run.states += accp; run.transitions += genp; run.traces += accp; run.evaluations += len(evp)
    run.extra["upper_range_probes"] = [{"n": e["n"], "finished": e["finished"]} for e in evp]
    for e in rejp:
        run.violation({"test": "dft", "n": e["n"], "level": "upper-range-probe", "why": (e.get("panic") or "ill-formed result")[:120]}, {"cmd": "probe", "event": e})
    if thorough:
        # the upper end of the admissible range (2^26 < n <= 2^27: the 10^8-bit sample size of the batch detector lies here):
        # the test must return a well-formed result (Registry!ResultOK judged by TLC); about 5 GiB and two minutes per input
        tmpb = vlib.scratch("dftbig")
        evb = []
        for k, n in enumerate([(1 << 26) + 1, 100000000]):
            jp = os.path.join(tmpb, "j%d.json" % k); op = os.path.join(tmpb, "o%d.ndjson" % k)
            with open(jp, "w") as fh:
                json.dump({"inputs": [{"id": 900 + k, "mode": "uni", "n": n, "seed": rng.randrange(1 << 40), "only": "dft"}]}, fh)
            pb = vlib.run_bin(hz, ["results", jp, op], timeout=3000)
            if pb.returncode != 0:
                raise vlib.InfraError("hz results (n=%d) failed: %s" % (n, (pb.stderr or "")[-600:]))
            evb += vlib.read_ndjson(op)
        accb, rejb, genb = vlib.validate_trace("TraceRegistry", evb, timeout=600, max_rej=4)
        run.states += accb; run.transitions += genb; run.traces += accb; run.evaluations += len(evb)
        run.extra["upper_range_inputs"] = [e["n"] for e in evb]
        for e in rejb:
            run.violation({"test": "dft", "n": e["n"], "level": "upper-range", "why": (e.get("panic") or "ill-formed result")[:120]}, {"cmd": "results", "event": e})
    run.rule = ("every bit sequence of 2..10(12) bits; generator sequences at n in 13..257(512) incl. n just above a power of two, periodic and constant modes "
                "(exact spectrum in the real layer, undecided band 1e-9 around the threshold); periodic words lifted to 2^10..2^20 bits; seeded inputs up to 10^6(2*10^6) bits via an "
                "independent FFT proxy; non-trivial = 1e-6 < P* < 1-1e-6")
    run.explanation = "The spectrum is the exact DFT definition evaluated with 60-digit cos/sin; N1 is counted over the first n/2-1 bins of the padded spectrum."
    run.assumptions = ["bins within relative 1e-9 of the threshold are accepted either way, as the statement allows",
                       "for n > 512 the count comes from an independent float64 FFT in the driver, cross-checked against the exact count on every small vector of the run"]
    run.finish()


def replay(path):
    statlib.replay_one(path)
