"""C18: tests are pure: input untouched, deterministic, safe to call concurrently (Purity.tla)."""
import json, os, random, re
import vlib

PROP = "C18"


def pcfg(P, shared, writes, nplans):
    return ("CONSTANTS P=%d SharedScratch=%s WritesInput=%s NPlans=%d Stride=1\nSPECIFICATION Spec\nINVARIANTS NonInterference InputUntouched TablesUntouched\nCHECK_DEADLOCK FALSE\n"
            % (P, shared, writes, nplans))


def run(tier):
    run = vlib.Run(PROP, tier)
    thorough = tier == "thorough"
    rng = random.Random(vlib.seed())
    nplans = 70 if thorough else 34
    r = vlib.tlc_ok(vlib.run_tlc("Purity", pcfg(3, "FALSE", "FALSE", nplans), timeout=900), "Purity P=3")
    run.add_tlc(r, "Purity P=3 private scratch: every interleaving, non-interference")
    plans = [v for v in r.json if v.get("ev") == "plan"]
    seen, uniq = set(), []
    for p in plans:
        if p["id"] not in seen:
            seen.add(p["id"]); uniq.append(p)
    plans = uniq
    if len(plans) < nplans:
        raise vlib.InfraError("Purity emitted %d plans" % len(plans))
    vlib.coverage_audit(run, "Purity", [pcfg(2, "FALSE", "FALSE", 2)], ["S1", "S2", "S3", "Emit"])
    r2 = vlib.tlc_ok(vlib.run_tlc("Purity", pcfg(2, "FALSE", "FALSE", 0), timeout=300), "Purity P=2")
    run.add_tlc(r2, "Purity P=2")
    for name, sh, wi, want in [("shared scratch", "TRUE", "FALSE", "NonInterference"), ("writes input", "FALSE", "TRUE", None)]:
        rn = vlib.run_tlc("Purity", pcfg(2, sh, wi, 0), timeout=300)
        if not rn.violated or (want and rn.violated != want):
            raise vlib.InfraError("vacuity guard: Purity with %s should violate an invariant, got %s" % (name, rn.violated))
        run.configs.append({"config": "negative: " + name, "violates": rn.violated})
    hz = vlib.go_build()
    hzr = vlib.go_build(race=True)
    tmp = vlib.scratch("conc")
    events = []
    jobs = [("plain", hz, 2500, plans), ("race", hzr, 2500, plans[: (34 if thorough else 22)])]
    if thorough:
        jobs.append(("plain-1e6", hz, 125000, plans[:12]))
        jobs.append(("race-1e6", hzr, 125000, plans[:3]))
    else:
        jobs.append(("plain-1e6", hz, 125000, plans[:2]))
    # first-use races (lazily initialised package state): one fresh process per storm plan, concurrent phase first
    for p_ in plans[:17]:
        jobs.append(("first-%d" % p_["id"], hzr if p_["id"] % 2 == 0 else hz, 2500, [p_]))
    from concurrent.futures import ThreadPoolExecutor
    def one(arg):
        name, binp, nbytes, pls = arg
        jp = os.path.join(tmp, "j_%s.json" % name); op = os.path.join(tmp, "o_%s.ndjson" % name)
        with open(jp, "w") as fh:
            json.dump({"nbytes": nbytes, "seed": rng.randrange(1 << 40), "concFirst": name.startswith("first-"), "plans": [{"id": p["id"], "goroutines": p["goroutines"], "tasks": p["tasks"], "rounds": p["rounds"]} for p in pls]}, fh)
        p = vlib.run_bin(binp, ["concurrent", jp, op], timeout=6000, env={"GORACE": "halt_on_error=0"})
        return name, p, (vlib.read_ndjson(op) if os.path.exists(op) else [])
    with ThreadPoolExecutor(max_workers=4) as ex:
        results = list(ex.map(one, jobs))
    nrace = 0
    for name, p, evs in results:
        races = re.findall(r"WARNING: DATA RACE.*?(?:==================\n)", p.stderr or "", re.S)
        inrepo = [x for x in races if "/repo/" in x or "github.com/Trisia/randomness" in x]
        nrace += len(races)
        if inrepo:
            run.violation({"kind": "data-race", "build": name}, {"report": inrepo[0][:5000], "build": name})
        elif p.returncode != 0 and not races:
            if "panic" in (p.stderr or "") or "fatal error" in (p.stderr or ""):
                run.violation({"kind": "crash", "build": name}, {"stderr": p.stderr[-3000:], "build": name})
            else:
                raise vlib.InfraError("concurrent driver (%s) failed rc=%s: %s" % (name, p.returncode, (p.stderr or "")[-800:]))
        for e in evs:
            e["build"] = name
        events += evs
    acc, rej, gen = vlib.validate_trace("TracePurity", events, timeout=900, max_rej=4)
    run.states += acc; run.transitions += gen; run.traces += acc; run.evaluations += sum(e.get("calls", 0) for e in events)
    for e in events:
        run.nontriv("%s|%d|%d" % (e["build"], e["id"], e["nbytes"]))
    byid = {p["id"]: p for p in plans}
    for e in rej:
        run.violation({"kind": "concurrent", "build": e["build"], "plan": e["id"], "mismatch": e.get("mismatch"), "mutated": e.get("mutated")},
                      {"cmd": "concurrent", "plan": byid.get(e["id"]), "event": e})
    run.extra["race_reports"] = nrace
    run.extra["plans"] = len(plans)
    run.sample({"plan": {"id": plans[0]["id"], "goroutines": plans[0]["goroutines"], "tasks_head": plans[0]["tasks"][:3], "rounds": plans[0]["rounds"]}})
    run.sample({"conc_event": events[0]})
    run.rule = ("model: all interleavings of 2-3 invocations with read/write footprints; code: TLC-generated plans of 2..64 goroutines x any mix of the 15 runners, Round15, Round12 (byte and bit entry points) "
                "on shared or private 20000-bit (and 10^6-bit) inputs, released by a start barrier, 1-3 rounds; results bit-identical to the solitary results, inputs hashed, table probe; "
                "the same plans in a -race build; each (build, plan, size) counts once; input purity and determinism of every single call are additionally checked inside the C01-C05, C15 replays")
    run.explanation = "The footprint model is bound to the code observationally (snapshots, bit-identity, race detector): TLA+ cannot see Go memory accesses."
    run.assumptions = ["free-running schedules are sampled; race freedom is decided by the Go race detector on the executions run"]
    run.finish()


def replay(path):
    print(json.dumps(json.load(open(path))["replay"])[:4000])
