"""C18: tests are pure: input untouched, deterministic, safe to call concurrently (Purity.tla)."""
import json, os, random, re
import vlib

PROP = "C18"


def pcfg(P, shared, writes, nplans):
    return ("CONSTANTS P=%d SharedScratch=%s WritesInput=%s NPlans=%d Stride=1\nSPECIFICATION Spec\nINVARIANTS NonInterference InputUntouched TablesUntouched\nCHECK_DEADLOCK FALSE\n"
            % (P, shared, writes, nplans))


def hcfg(nlen, nvar, maxc, reslice="TRUE", memo="full", derive="TRUE"):
    return ('CONSTANTS NLen=%d NVar=%d MaxCalls=%d Reslice=%s MemoKey="%s" DeriveCopy=%s\nSPECIFICATION Spec\nINVARIANTS TypeOK HistoryIndependent Repeatable\nCHECK_DEADLOCK FALSE\n'
            % (nlen, nvar, maxc, reslice, memo, derive))


def history_part(run, hz, thorough, rng):
    """Sequential side of C18 (History.tla): every history of <= 3 calls over (length class x data variant), each executed by a
    fresh process against the real library; every result must equal the solitary one (TraceHistory.tla)."""
    nlen, nvar, maxc = (3, 2, 4) if thorough else (3, 2, 3)      # thorough: every history of up to four calls (1554 plans)
    r = vlib.tlc_ok(vlib.run_tlc("History", hcfg(nlen, nvar, maxc), workers=1, timeout=600), "History")
    run.add_tlc(r, "History NLen=%d NVar=%d MaxCalls=%d pure switches: every history, HistoryIndependent" % (nlen, nvar, maxc))
    plans, seen = [], set()
    for v in r.json:
        if v.get("ev") == "hplan":
            k = tuple(v["calls"])
            if k not in seen:
                seen.add(k); plans.append(list(k))
    want = sum((nlen * nvar) ** k for k in range(1, maxc + 1))
    if len(plans) != want:
        raise vlib.InfraError("History emitted %d plans, expected %d" % (len(plans), want))
    # negative controls: each kind of retained state breaks the invariant; the in-place table only with three calls
    for name, c in [("pool keeps stale length", hcfg(nlen, nvar, maxc, reslice="FALSE")), ("memo keyed by length only", hcfg(nlen, nvar, maxc, memo="len")),
                    ("table derived in place", hcfg(nlen, nvar, maxc, derive="FALSE"))]:
        rn = vlib.run_tlc("History", c, workers=1, timeout=300)
        if rn.violated not in ("HistoryIndependent", "Repeatable"):
            raise vlib.InfraError("vacuity guard: History with '%s' should violate HistoryIndependent, got %s" % (name, rn.violated))
        run.configs.append({"config": "negative: History, " + name, "violates": rn.violated})
    r2 = vlib.run_tlc("History", hcfg(nlen, nvar, 2, derive="FALSE"), workers=1, timeout=300)
    if r2.violated or r2.rc != 0:
        raise vlib.InfraError("History: the in-place table should need three calls to show (two calls gave %s)" % r2.violated)
    run.configs.append({"config": "History, table derived in place, MaxCalls=2", "violates": None, "note": "histories of two calls do not expose it: three are generated"})
    # histories of ANY length (pure settings, fixed numbers of length classes and data variants): inductive invariant "the memo
    # holds only ideal values, the shared table is never dirty, the last result was ideal" discharged by Apalache
    vlib.apalache_inductive(run, "HistoryApa", "CInitBig" if thorough else "CInitSmall", safety=("AlwaysIdeal",))
    # length classes: byte-aligned, not multiples of 64, two of them above 2^16 bits; two data variants each
    lens = [4104, 66008, 131080] if not thorough else [4104, 66008, 262152]
    classes = []
    for li, n in enumerate(lens):
        for vi in range(nvar):
            classes.append({"n": n, "mode": ["uni", "runsbias", "bias"][(li + vi) % 3], "seed": rng.randrange(1 << 40)})
    tmp = vlib.scratch("hist")
    from concurrent.futures import ThreadPoolExecutor

    def runjob(tag, plan, only):
        jp = os.path.join(tmp, "j_%s.json" % tag); op = os.path.join(tmp, "o_%s.ndjson" % tag)
        with open(jp, "w") as fh:
            json.dump({"classes": classes, "plan": plan, "only": only, "id": 0}, fh)
        p = vlib.run_bin(hz, ["history", jp, op], timeout=1200)
        rows = vlib.read_ndjson(op) if os.path.exists(op) else []
        return p, rows
    # solitary references: one process per (class, test/parameter combination)
    p0, rows0 = runjob("probe", list(range(1, len(classes) + 1)), -1)
    if p0.returncode != 0 or not rows0:
        if "panic" in (p0.stderr or "") or "fatal error" in (p0.stderr or ""):
            run.violation({"kind": "history-crash"}, {"cmd": "history", "classes": classes, "plan": list(range(1, len(classes) + 1)), "stderr": (p0.stderr or "")[-2000:]})
            return
        raise vlib.InfraError("history probe failed: " + (p0.stderr or "")[-600:])
    ncombo = [len(v) for v in rows0[0]["vals"]]
    solo_jobs = [(c, k) for c in range(1, len(classes) + 1) for k in range(ncombo[c - 1])]
    with ThreadPoolExecutor(max_workers=vlib.NCPU) as ex:
        solo_res = list(ex.map(lambda ck: runjob("s%d_%d" % ck, [ck[0]], ck[1]), solo_jobs))
    solo = {c: [None] * ncombo[c - 1] for c in range(1, len(classes) + 1)}
    for (c, k), (p, rows) in zip(solo_jobs, solo_res):
        if p.returncode != 0 or not rows or len(rows[0]["vals"][0]) != 1:
            raise vlib.InfraError("solitary reference (class %d combination %d) failed: %s" % (c, k, (p.stderr or "")[-400:]))
        solo[c][k] = rows[0]["vals"][0][0]
    # the plans, one fresh process each
    with ThreadPoolExecutor(max_workers=vlib.NCPU) as ex:
        plan_res = list(ex.map(lambda ip: runjob("p%d" % ip[0], ip[1], -1), list(enumerate(plans))))
    events = []
    for pid, (plan, (p, rows)) in enumerate(zip(plans, plan_res)):
        if p.returncode != 0 or not rows:
            if "panic" in (p.stderr or "") or "fatal error" in (p.stderr or ""):
                events.append({"ev": "hist", "nclass": len(classes), "plan": plan, "vals": [["crash"] for _ in plan], "solo": [solo[c] for c in plan], "panic": (p.stderr or "")[-600:], "id": pid})
                continue
            raise vlib.InfraError("history plan %s failed: %s" % (plan, (p.stderr or "")[-400:]))
        events.append({"ev": "hist", "nclass": len(classes), "plan": plan, "vals": rows[0]["vals"], "solo": [solo[c] for c in plan], "panic": "", "id": pid})
    acc, rej, gen = vlib.validate_trace("TraceHistory", events, timeout=1800, max_rej=6)
    run.states += acc; run.transitions += gen; run.traces += acc
    run.evaluations += sum(len(v) for e in events for v in e["vals"])
    for e in events:
        run.nontriv("hist|%s" % ",".join(map(str, e["plan"])))
    run.extra["history_plans"] = len(plans)
    run.extra["history_classes"] = [{"n": c["n"], "mode": c["mode"]} for c in classes]
    run.extra["history_results_per_call"] = ncombo
    run.sample({"history_plan": plans[len(plans) // 2], "first_values_of_its_last_call": events[len(plans) // 2]["vals"][-1][:2]})
    for e in rej:
        diffs = []
        for i, c in enumerate(e["plan"]):
            for k, (a, b) in enumerate(zip(e["vals"][i], e["solo"][i])):
                if a != b:
                    diffs.append({"call": i + 1, "class": c, "got": a[:160], "alone": b[:160]})
        first = diffs[0] if diffs else {}
        run.violation({"kind": "history", "plan": ",".join(map(str, e["plan"])), "what": (first.get("got", "").split(" ")[0] if first else "panic")},
                      {"cmd": "history", "classes": classes, "plan": e["plan"], "differences": diffs[:8], "panic": e["panic"][:600]})


def run(tier):
    run = vlib.Run(PROP, tier)
    thorough = tier == "thorough"
    rng = random.Random(vlib.seed())
    nplans = 70 if thorough else 34
    r = vlib.tlc_ok(vlib.run_tlc("Purity", pcfg(3, "FALSE", "FALSE", nplans), timeout=900), "Purity P=3")
    run.add_tlc(r, "Purity P=3 private scratch: every interleaving, non-interference")
    plans = [v for v in r.json if v.get("ev") == "plan"]
    seen, uniq = set(), []
    for p in plans:
        if p["id"] not in seen:
            seen.add(p["id"]); uniq.append(p)
    plans = uniq
    if len(plans) < nplans:
        raise vlib.InfraError("Purity emitted %d plans" % len(plans))
    vlib.coverage_audit(run, "Purity", [pcfg(2, "FALSE", "FALSE", 2)], ["S1", "S2", "S3", "Emit"])
    r2 = vlib.tlc_ok(vlib.run_tlc("Purity", pcfg(2, "FALSE", "FALSE", 0), timeout=300), "Purity P=2")
    run.add_tlc(r2, "Purity P=2")
    for name, sh, wi, want in [("shared scratch", "TRUE", "FALSE", "NonInterference"), ("writes input", "FALSE", "TRUE", None)]:
        rn = vlib.run_tlc("Purity", pcfg(2, sh, wi, 0), timeout=300)
        if not rn.violated or (want and rn.violated != want):
            raise vlib.InfraError("vacuity guard: Purity with %s should violate an invariant, got %s" % (name, rn.violated))
        run.configs.append({"config": "negative: " + name, "violates": rn.violated})
    hz = vlib.go_build()
    hzr = vlib.go_build(race=True)
    tmp = vlib.scratch("conc")
    events = []
    jobs = [("plain", hz, 2500, plans), ("race", hzr, 2500, plans[: (34 if thorough else 22)])]
    if thorough:
        jobs.append(("plain-1e6", hz, 125000, plans[:12]))
        jobs.append(("race-1e6", hzr, 125000, plans[:3]))
    else:
        jobs.append(("plain-1e6", hz, 125000, plans[:2]))
    # storms at 2^21..2^23 bits (where an implementation may start to split one call over goroutines): the linear-time tests
    big_tests = [1, 2, 3, 4, 5, 6, 7, 8, 9, 10, 11, 12, 14]
    big_plans = []
    for p_ in plans[:17]:
        if p_["id"] + 1 in big_tests:
            big_plans.append(dict(p_, goroutines=16 if thorough else 6, tasks=p_["tasks"][: (16 if thorough else 6)], rounds=2 if thorough else 1))
    jobs.append(("plain-4M", hz, 524289, big_plans))
    # first-use races (lazily initialised package state): one fresh process per storm plan, concurrent phase first
    for p_ in plans[:17]:
        jobs.append(("first-%d" % p_["id"], hzr if p_["id"] % 2 == 0 else hz, 2500, [p_]))
    from concurrent.futures import ThreadPoolExecutor
    job_wall = {}
    run.extra["driver_job_wall_s"] = job_wall
    def one(arg):
        name, binp, nbytes, pls = arg
        jp = os.path.join(tmp, "j_%s.json" % name); op = os.path.join(tmp, "o_%s.ndjson" % name)
        with open(jp, "w") as fh:
            json.dump({"nbytes": nbytes, "seed": rng.randrange(1 << 40), "concFirst": name.startswith("first-"), "plans": [{"id": p["id"], "goroutines": p["goroutines"], "tasks": p["tasks"], "rounds": p["rounds"]} for p in pls]}, fh)
        import time as _t
        t0 = _t.time()
        p = vlib.run_bin(binp, ["concurrent", jp, op], timeout=6000, env={"GORACE": "halt_on_error=0"})
        job_wall[name] = round(_t.time() - t0, 1)
        return name, p, (vlib.read_ndjson(op) if os.path.exists(op) else [])
    with ThreadPoolExecutor(max_workers=4) as ex:
        results = list(ex.map(one, jobs))
    nrace = 0
    for name, p, evs in results:
        races = re.findall(r"WARNING: DATA RACE.*?(?:==================\n)", p.stderr or "", re.S)
        inrepo = [x for x in races if "/repo/" in x or "github.com/Trisia/randomness" in x]
        nrace += len(races)
        if inrepo:
            run.violation({"kind": "data-race", "build": name}, {"report": inrepo[0][:5000], "build": name})
        elif p.returncode != 0 and not races:
            if "panic" in (p.stderr or "") or "fatal error" in (p.stderr or ""):
                run.violation({"kind": "crash", "build": name}, {"stderr": p.stderr[-3000:], "build": name})
            else:
                raise vlib.InfraError("concurrent driver (%s) failed rc=%s: %s" % (name, p.returncode, (p.stderr or "")[-800:]))
        for e in evs:
            e["build"] = name
        events += evs
    acc, rej, gen = vlib.validate_trace("TracePurity", events, timeout=900, max_rej=4)
    run.states += acc; run.transitions += gen; run.traces += acc; run.evaluations += sum(e.get("calls", 0) for e in events)
    for e in events:
        run.nontriv("%s|%d|%d" % (e["build"], e["id"], e["nbytes"]))
    byid = {p["id"]: p for p in plans}
    for e in rej:
        run.violation({"kind": "concurrent", "build": e["build"], "plan": e["id"], "mismatch": e.get("mismatch"), "mutated": e.get("mutated")},
                      {"cmd": "concurrent", "plan": byid.get(e["id"]), "event": e})
    history_part(run, hz, thorough, rng)
    run.extra["race_reports"] = nrace
    run.extra["plans"] = len(plans)
    run.sample({"plan": {"id": plans[0]["id"], "goroutines": plans[0]["goroutines"], "tasks_head": plans[0]["tasks"][:3], "rounds": plans[0]["rounds"]}})
    run.sample({"conc_event": events[0]})
    run.rule = ("model: all interleavings of 2-3 invocations with read/write footprints; code: TLC-generated plans of 2..64 goroutines x any mix of the 15 runners, Round15, Round12 (byte and bit entry points) "
                "on shared or private 20000-bit (and 10^6-bit) inputs, released by a start barrier, 1-3 rounds; results bit-identical to the solitary results, inputs hashed, table probe; "
                "the same plans in a -race build; each (build, plan, size) counts once; input purity and determinism of every single call are additionally checked inside the C01-C05, C15 replays")
    run.explanation = "The footprint model is bound to the code observationally (snapshots, bit-identity, race detector): TLA+ cannot see Go memory accesses."
    run.assumptions = ["free-running schedules are sampled; race freedom is decided by the Go race detector on the executions run"]
    run.finish()


def replay(path):
    rp = json.load(open(path))["replay"]
    if rp.get("cmd") == "history":
        hz = vlib.go_build()
        tmp = vlib.scratch("histr")
        jp = os.path.join(tmp, "j.json"); op = os.path.join(tmp, "o.ndjson")
        with open(jp, "w") as fh:
            json.dump({"classes": rp["classes"], "plan": rp["plan"], "only": -1, "id": 0}, fh)
        p = vlib.run_bin(hz, ["history", jp, op], timeout=1200)
        rows = vlib.read_ndjson(op) if os.path.exists(op) else []
        print("plan", rp["plan"], "rc", p.returncode)
        for d in rp.get("differences", []):
            now = [x for x in (rows[0]["vals"][d["call"] - 1] if rows else []) if x.split(" ")[0] == d["got"].split(" ")[0]]
            print("call %d (class %d): recorded %s | alone %s | now %s" % (d["call"], d["class"], d["got"], d["alone"], now[:1]))
        return
    print(json.dumps(rp)[:4000])
