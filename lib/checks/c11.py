"""C11: single-shot detection applies the poker test with the length-appropriate m (Single.tla)."""
import json, random
from decimal import Decimal
import vlib
from checks import wf

PROP = "C11"


def single_trace_event(job, res, mustreject=False):
    return {"ev": "single1", "numByte": job["numByte"], "hang": bool(res.get("hang")), "panic": "panic" in res, "verdict": bool(res.get("verdict", False)),
            "haserr": bool(res.get("haserr", False)), "consumed": int(res.get("consumed", -1)), "maxreq": int(res.get("maxreq", -1)),
            "h2": res.get("h2", []), "h4": res.get("h4", []), "h8": res.get("h8", []), "mustreject": mustreject, "id": job["id"]}


def run(tier):
    run = vlib.Run(PROP, tier)
    thorough = tier == "thorough"
    rng = random.Random(vlib.seed())
    hz = vlib.go_build()
    lens = (16, 17, 39, 40, 41, 63, 100, 255, 500, 641, 1279, 1280, 1281) + ((2000, 4095, 4096) if thorough else (4096,))
    dials = tuple(range(0, 64)) + (80, 120, 1000, 1001, 1002, 1003)
    seeds = tuple(rng.randrange(1, 40000) for _ in range(3 if thorough else 1))
    def tl(xs):
        return "<<" + ", ".join(map(str, xs)) + ">>"
    mc = "---- MODULE MCSingle ----\nEXTENDS GenSingle\nMCLens == %s\nMCDials == %s\nMCSeeds == %s\n====\n" % (tl(lens), tl(dials), tl(seeds))
    cfg = "CONSTANTS MaxLen=4200 Lens<-MCLens Dials<-MCDials Seeds<-MCSeeds Stride=%d\nSPECIFICATION Spec\nCHECK_DEADLOCK FALSE\n" % (2 * vlib.NCPU)
    r = vlib.tlc_ok(vlib.run_tlc("MCSingle", cfg, timeout=3000, extra_files={"MCSingle.tla": mc}), "GenSingle")
    run.add_tlc(r, "GenSingle lens=%s dials=%s seeds=%d; m-rule for every length 0..4200" % (list(lens), list(dials), len(seeds)))
    vecs, seen = [], set()
    for v in r.json:
        if v.get("ev") == "single":
            k = json.dumps(v["label"], sort_keys=True)
            if k not in seen:
                seen.add(k); vecs.append(v)
    if len(vecs) < len(lens) * len(dials):
        raise vlib.InfraError("GenSingle emitted %d vectors" % len(vecs))
    # ---- channel R
    jobs = []
    for i, v in enumerate(vecs):
        jobs.append(wf.mk_single(i + 1, len(v["bytes"]), stream={"kind": "bytes", "bytes": v["bytes"], "len": -1},
                                 policy=rng.choice(["full", "fixed", "random"]), size=13, rseed=i, tag="vec"))
    order = list(range(len(jobs)))
    rng.shuffle(order)
    rows, crashed = vlib.run_hz_jobs(hz, "workflow", [jobs[i] for i in order], nproc=8)
    if crashed:
        run.violation({"kind": "crash"}, {"job": crashed[0]["first_missing"], "stderr": crashed[0]["stderr"][-1000:]})
    discr = 0
    for i, v in enumerate(vecs):
        rr = rows.get(i + 1)
        if rr is None:
            continue
        run.evaluations += 1
        run.traces += 1
        p = Decimal(v["P"])
        if abs(p - Decimal("0.01")) < Decimal("1e-9"):
            continue
        why = None
        if rr.get("hang") or "panic" in rr:
            why = "hang/panic"
        elif bool(rr.get("verdict")) != bool(v["verdict"]) or bool(rr.get("haserr")) != bool(v["err"]):
            why = "verdict %s err %s, spec verdict %s err %s (m=%s, P=%s)" % (rr.get("verdict"), rr.get("haserr"), v["verdict"], v["err"], v["m"], v["P"][:14])
        elif rr.get("consumed") != len(v["bytes"]) or rr.get("maxreq", 0) > len(v["bytes"]):
            why = "consumed %s / requested up to %s of %d bytes" % (rr.get("consumed"), rr.get("maxreq"), len(v["bytes"]))
        if why:
            run.violation({"kind": "single-vector", "nb": len(v["bytes"]), "t": v["label"]["t"], "why": why[:120]},
                          {"cmd": "workflow", "job": jobs[i], "spec": {k: v[k] for k in ("verdict", "err", "m", "P", "P2", "P4", "P8")}, "why": why})
        others = [Decimal(v[k]) for k, m in (("P2", 2), ("P4", 4), ("P8", 8)) if m != v["m"]]
        if any((o >= Decimal("0.01")) != bool(v["verdict"]) for o in others):
            discr += 1
            run.nontriv("vec|" + json.dumps(v["label"], sort_keys=True))
    run.extra["vectors_where_a_wrong_m_flips_the_verdict"] = discr
    run.sample({"vector": {"label": vecs[5]["label"], "m": vecs[5]["m"], "P": vecs[5]["P"], "verdict": vecs[5]["verdict"], "P2": vecs[5]["P2"][:12], "P4": vecs[5]["P4"][:12], "P8": vecs[5]["P8"][:12]}})
    # ---- channel T: every length with seeded / biased contents
    tj = []
    jid = 100000
    all_lens = list(range(0, 4097)) if thorough else sorted(set(list(range(0, 64)) + list(range(64, 4097, 8)) + [319 // 8, 320 // 8, 1279, 1280, 1281, 4095, 4096]))
    all_lens += [10000, 125000]
    for nb in all_lens:
        for rep in range(2 if thorough else 1):
            jid += 1
            mode = rng.random()
            if mode < 0.5:
                st = {"kind": "seeded", "seed": rng.randrange(1 << 40), "len": -1}
            else:
                w = rng.choice([3, 5, 17, 64, 257, 1021])
                st = {"kind": "periodic", "period": [rng.choice([rng.randrange(256), 0x55, 0x0f, 0xaa, 0x33]) for _ in range(w)], "len": -1}
            jn = wf.mk_single(jid, nb, stream=st, policy=rng.choice(["full", "fixed", "one", "random"]), size=11, rseed=jid, tag="len")
            if nb >= 16 and jid % 4 == 0:
                # the source holds exactly the requested bytes and delivers the last of them together with io.EOF
                jn["stream"] = dict(st, len=nb)
                jn["reader"]["eofWithData"] = True
                jn["tag"] = "len, EOF with the last bytes"
            tj.append(jn)
    # large requests in which one byte value occurs 2^16 times or more (pattern counts beyond 16 bits), constant or nearly so
    for nb in [65535, 65536, 65537, 70000, 131072] + ([262144, 1048576] if thorough else []):
        for per in ([rng.randrange(256)], [0x5A] * 15 + [rng.randrange(256)], [0xFF] * 31 + [rng.randrange(256), rng.randrange(256)]):
            jid += 1
            tj.append(wf.mk_single(jid, nb, stream={"kind": "periodic", "period": per, "len": -1},
                                   policy=rng.choice(["full", "fixed", "random"]), size=4093, rseed=jid, tag="dominated"))
    rng.shuffle(tj)     # call histories: growing and shrinking requests in one process
    rows, crashed = vlib.run_hz_jobs(hz, "workflow", tj, nproc=8)
    if crashed:
        run.violation({"kind": "crash"}, {"job": crashed[0]["first_missing"], "stderr": crashed[0]["stderr"][-1000:]})
    # simultaneous calls (a device self-test and an application drawing randomness at the same time): groups of sixteen
    # calls on their own sources, healthy and stuck contents side by side, released together, three rounds
    cj = []
    for grp in range(1, (7 if thorough else 4)):
        for g in range(16):
            jid += 1
            nb = rng.choice([40, 64, 200, 1279, 1280, 2048, 4096]) if grp % 2 else rng.choice([16, 24, 39, 40, 1280, 4096])
            if grp == 3:
                nb = rng.choice([262144, 524288, 1048576, 300000])     # milliseconds per call: they overlap whatever the load
            if g % 2 == 0:
                st = {"kind": "seeded", "seed": rng.randrange(1 << 40), "len": -1}
            else:
                st = {"kind": "periodic", "period": [rng.choice([0x00, 0xFF, 0x5A, 0x0F])] * 3 + [rng.randrange(256)], "len": -1}
            j = wf.mk_single(jid, nb, stream=st, policy=rng.choice(["full", "fixed"]), size=97, rseed=jid, tag="simultaneous group %d" % grp)
            j["conc"] = grp
            cj.append(j)
    crow, ccr = vlib.run_hz_jobs(hz, "workflow", cj, nproc=1)
    if ccr:
        run.violation({"kind": "crash-simultaneous"}, {"job": ccr[0]["first_missing"], "stderr": ccr[0]["stderr"][-1000:]})
    rows.update(crow)
    tj += cj
    run.extra["simultaneous_calls"] = len(cj)
    # a platform whose int has 32 bits (GOARCH=386 build of the driver): the dominated large requests and a stride of the sweep
    try:
        hz386 = vlib.go_build(goarch="386")
        ok386 = vlib.can_run_386(hz386)
    except vlib.InfraError:
        ok386 = False
    run.extra["int32_platform_pass"] = bool(ok386)
    if ok386:
        sub = []
        for k_, j in enumerate(list(tj)):
            if j.get("conc"):
                continue
            if j["tag"] == "dominated" or k_ % 9 == 0:
                jid += 1
                sub.append(dict(j, id=jid, tag=j["tag"] + " GOARCH=386"))
        r3, c3 = vlib.run_hz_jobs(hz386, "workflow", sub, nproc=4)
        if c3:
            run.violation({"kind": "crash", "arch": "386"}, {"job": c3[0]["first_missing"], "stderr": c3[0]["stderr"][-1000:]})
        rows.update(r3)
        tj += sub
    events = [single_trace_event(j, rows[j["id"]]) for j in tj if rows.get(j["id"])]
    acc, rej, gen = vlib.validate_trace("TraceSingle", events, timeout=3000, max_rej=4)
    run.states += acc; run.transitions += gen; run.traces += acc; run.evaluations += len(events)
    byid = {j["id"]: j for j in tj}
    nt = sum(1 for e in events if e["verdict"]), sum(1 for e in events if not e["verdict"])
    run.extra["length_sweep_true_false"] = list(nt)
    for e in events:
        run.nontriv("len|%d|%d" % (e["numByte"], e["id"]))
    for e in rej:
        run.violation({"kind": "single-trace", "nb": e["numByte"]}, {"cmd": "workflow", "job": byid[e["id"]], "event": {k: v for k, v in e.items() if k != "h8"}})
    run.rule = ("model: m-selection / error rule for every length 0..4200; vectors: lengths around 16, 40, 1280 and up to 4096 x bias dials that move P across 0.01 "
                "(expected verdict from the poker definition, P under the other two m reported); sweep: every length 0..4096 (stride 8 above 64 in quick) with seeded and periodic contents judged by TLC "
                "from pattern histograms; non-trivial vector = a wrong m would flip the verdict")
    run.explanation = "Single.tla selects m and decides through the poker definition of FreqTests.tla; junk follows the requested bytes and must never be requested."
    run.assumptions = ["contents with |P - 0.01| < 1e-9 are accepted either way"]
    run.finish()


def replay(path):
    from checks import c07
    c07.replay(path)
