"""Common run loop for C01-C03 (GenStats families): L1 exhaustive enumeration, L2 generator
descriptors, L3 large seeded inputs judged by TLC through TraceStats."""
import json, random
import vlib
from checks import statlib


def run_family(prop, family, tier, sizes_q, sizes_t, modes, l1, l3_calls, text, l3_sizes=None):
    run = vlib.Run(prop, tier)
    thorough = tier == "thorough"
    rng = random.Random(vlib.seed())
    hz = vlib.go_build()
    lo, hi_q, hi_t = l1
    # L1: every sequence
    r, vecs = statlib.gen_stats(family, 1, minn=lo, maxn=hi_t if thorough else hi_q)
    run.add_tlc(r, "GenStats %s Level=1 n=%d..%d (all sequences, Alg=Def)" % (family, lo, hi_t if thorough else hi_q))
    if len(vecs) < 100:
        raise vlib.InfraError("GenStats L1 emitted %d vectors" % len(vecs))
    statlib.replay(run, hz, vecs)
    run.sample({"L1": {"label": vecs[len(vecs) // 2]["label"], "bits": "".join(map(str, vecs[len(vecs) // 2]["bits"])),
                       "call": {k: v for k, v in vecs[len(vecs) // 2]["calls"][-1].items() if k in ("t", "m", "k", "d", "forward", "sym", "P", "Q")}}})
    # L2: generator descriptors
    sizes = sizes_t if thorough else sizes_q
    seeds = tuple(rng.randrange(1, 40000) for _ in range(3 if thorough else 1))
    r, vecs2 = statlib.gen_stats(family, 2, sizes=sizes, modes=modes, seeds=seeds, invariants=("AlgEqualsDef",))
    run.add_tlc(r, "GenStats %s Level=2 sizes=%s modes=%d seeds=%s" % (family, list(sizes), len(modes), list(seeds)))
    statlib.replay(run, hz, vecs2)
    v = vecs2[len(vecs2) // 3]
    run.sample({"L2": {"label": v["label"], "call": {k: x for k, x in v["calls"][-1].items() if k in ("t", "m", "k", "d", "forward", "sym", "P", "Q")}}})
    # L2b: lengths around powers of two (where chunked / table-driven implementations change behaviour)
    pw = [x for e in ((7, 8, 9, 10, 12, 13) if not thorough else (7, 8, 9, 10, 11, 12, 13, 14)) for x in ((1 << e) - 1, 1 << e, (1 << e) + 1)]
    # the same derived block count reached in two parameter regimes (n/8 = n'/128 = 100; 75), in one process
    pw += [600, 800, 9600, 12800]
    r, vecs3 = statlib.gen_stats(family, 2, sizes=tuple(pw), modes=("uni",) if not thorough else ("uni", "bias75"), seeds=seeds[:1], invariants=("AlgEqualsDef",))
    run.add_tlc(r, "GenStats %s Level=2 powers of two -1/0/+1: %s" % (family, pw))
    statlib.replay(run, hz, vecs3)
    # the regime pairs once more, all in ONE driver process (the batch above is spread over many): ascending, and -- by the
    # reverse pass of the driver -- descending
    pair_sizes = {600, 800, 9600, 12800}
    vpair = [dict(v) for v in vecs3 if (len(v["bits"]) or v.get("repeat", 0)) in pair_sizes]
    if vpair:
        statlib.replay(run, hz, vpair, nproc=1)
    # L3: large seeded inputs, proxy summaries judged by TLC
    inputs = []
    # 1048579 > 2^20: the first length above a power-of-two block size a chunked implementation might use
    l3s = l3_sizes or ([999999, 1000000, 1000003, 1048575, 1048576, 1048579] + ([100000, 10000000] if thorough else []))
    # byte-aligned lengths above 2^16 bits of different sizes (65544, 98304, 131072 bits): buffers kept between calls
    l3s = list(l3s) + [x for x in (65544, 98304, 131072) if x not in l3s]
    # above 2^22 bits (where an implementation may start to split the work over goroutines); the driver repeats every input
    # with three and seven processors visible to the runtime
    l3s += [4194304, 4194309]
    l3modes = ["uni", "bias", "runsbias", "periodic"] + (["heavy", "dombyte", "step", "alt", "halves", "onehot", "const1"] if thorough else ["heavy"])
    iid = 0
    for n in l3s:
        # byte-aligned lengths also exercise the byte-oriented entry points: always give them a uniform and a heavily
        # biased input (pattern counts far above 2^16)
        for mode in (l3modes if thorough else (["uni", "dombyte"] if n % 8 == 0 else [l3modes[iid % len(l3modes)], l3modes[(iid + 1) % len(l3modes)]])):
            iid += 1
            inputs.append({"id": iid, "mode": mode, "n": n, "seed": rng.randrange(1 << 40), "calls": l3_calls(n)})
    from checks import stattrace
    stattrace.trace_inputs(run, hz, inputs)
    run.rule = ("L1: every bit sequence of the listed lengths x every documented parameter; L2: generator descriptors (size x mode x seed); "
                "L3: seeded 10^5..10^7-bit inputs summarised by the spec proxy and judged by TLC; distinct non-trivial = distinct (test, parameter, input) with 1e-6 < P* < 1-1e-6")
    run.explanation = "Covers " + text + ". Alg = Def is model-checked on every L1 sequence; the real code is compared with PQ(Def) at 1e-8."
    run.assumptions = ["RealFn primitives (erfc, Q(a,x), ln) are correct (axioms + mpmath vectors)",
                       "L3: the Go spec proxy is tied to the TLA+ definitions on every L1/L2 vector of this run (a disagreement aborts with exit 2)"]
    run.exhaustive = False
    run.finish()
