"""C20: the sample generator writes the requested files where it was told to (Gen.tla)."""
import hashlib, json, os, random, re, shutil
import vlib
from checks.c13 import build_tool

PROP = "C20"
NCPU_PLUS = vlib.NCPU + 3


def gcfg(S, W, use, live):
    return ('CONSTANTS S=%d W=%d UseOutDir=%s OutDir="out"\nSPECIFICATION Spec\nINVARIANTS FilesWhereTold NothingElsewhere\n%sCHECK_DEADLOCK FALSE\n'
            % (S, W, use, "PROPERTY Terminates\n" if live else ""))


def snapshot(root):
    out = {}
    for d, _, fs in os.walk(root):
        for f in fs:
            p = os.path.join(d, f)
            try:
                with open(p, "rb") as fh:
                    data = fh.read()
                out[os.path.relpath(p, root)] = (len(data), hashlib.sha256(data).hexdigest())
            except OSError:
                out[os.path.relpath(p, root)] = (-1, "unreadable")
    return out


def run(tier):
    run = vlib.Run(PROP, tier)
    thorough = tier == "thorough"
    rng = random.Random(vlib.seed())
    for S, W, live in ([(3, 2, True), (4, 3, False)] + ([(4, 2, True), (5, 3, False)] if thorough else [])):
        r = vlib.tlc_ok(vlib.run_tlc("Gen", gcfg(S, W, "TRUE", live), timeout=900), "Gen")
        run.add_tlc(r, "Gen S=%d W=%d%s" % (S, W, " +liveness" if live else ""))
    # unbounded depth for fixed constants (typed copy GenApa.tla of the same actions): every handed-out index is held by
    # exactly one writer or finished, the WaitGroup counts the unfinished ones => FilesWhereTold
    vlib.apalache_inductive(run, "GenApa", "CInitBig" if thorough else "CInitSmall", safety=("FilesWhereTold",))
    vlib.coverage_audit(run, "Gen", [gcfg(3, 2, "TRUE", False)], ["MainAdd", "MainOffer", "MainSentAll", "MainExit", "Recv", "Open", "WriteClose", "Done"])
    r = vlib.run_tlc("Gen", gcfg(2, 2, "FALSE", False), timeout=300)
    if r.violated not in ("FilesWhereTold", "NothingElsewhere"):
        raise vlib.InfraError("vacuity guard: ignoring -o should violate FilesWhereTold/NothingElsewhere, got %s" % r.violated)
    run.configs.append({"config": "negative: writers ignore -o", "violates": r.violated})
    gen = build_tool("rdgen")
    det = build_tool("rddetector")
    scen = []
    ss = [1, 2, 17, 100, 101, 257, 300] if thorough else [1, 17, 130]
    for s in ss:
        for n in ([20000, 8, 4096, 1000000] if thorough else [20000, 4096, 8]):
            if n == 1000000 and s > 17:
                continue
            if s > 17 and n not in (8, 4096):
                continue
            for o in ([None, "data", "./a/b/c", "ABS", "pre"] if thorough else ([None, "pre"] if n == 20000 else ["ABS", rng.choice(["data", "./a/b/c"])])):
                scen.append((s, n, o, rng.choice([None, "0", "0-1"]), rng.choice([1, 2, 16])))
    # the largest supported sample size (12.5 MB per file): a completion signal that comes before the data is on disk shows here
    # lengths whose byte count is a multiple of a typical chunk size (64 KiB, 128 KiB, 1 MiB)
    scen.append((3, 524288, "data", None, 16))
    scen.append((2, 1048576, "ABS", "0-1", 2))
    scen.append((2, 8388608, None, None, 16))
    scen.append((3, 100000000, "data", None, 16))
    scen.append((2, 100000000, None, "0", 1))
    if thorough:
        scen.append((NCPU_PLUS, 100000000, "./a/b/c", None, 16))
    else:
        scen.append((5, 1000000, "ABS", None, 16))
    # an ordinary (unprivileged) user and output directories that do not exist yet: the tool creates them and must then be
    # able to use them. When the check itself does not run as root every scenario above already is of this kind.
    unpriv = set()
    if vlib.can_drop_privileges():
        for sc_ in [(3, 4096, "./a/b/c", None, 4), (2, 20000, None, None, 2), (2, 4096, "fresh", "0", 1)]:
            unpriv.add(len(scen))
            scen.append(sc_)
    run.extra["unprivileged_scenarios"] = len(unpriv)
    # environment of the process: a low descriptor limit with more files than descriptors; a temporary directory ($TMPDIR)
    # that lies on another file system than the output directory
    special = {}
    special[len(scen)] = {"nofile": 64}
    scen.append((300, 256, "many", None, 4))
    shm = "/dev/shm"
    if os.path.isdir(shm) and os.access(shm, os.W_OK) and os.stat(shm).st_dev != os.stat(os.environ.get("VERIF_TMP", "/tmp")).st_dev:
        special[len(scen)] = {"tmpdir_other_fs": True}
        scen.append((5, 20000, "./x/y", None, 4))
    run.extra["special_environment_scenarios"] = [dict(v) for v in special.values()]
    pubbin = None
    events = []
    metas = []
    for si, (s, n, o, ts, gmp) in enumerate(scen):
        cwd = vlib.scratch("gen")
        user = None
        if si in unpriv:
            os.chmod(cwd, 0o777)
            if pubbin is None:
                pubdir = vlib.scratch("genbin")
                os.chmod(pubdir, 0o755)
                pubbin = os.path.join(pubdir, "rdgen")
                shutil.copy(gen, pubbin)
                os.chmod(pubbin, 0o755)
            user = "nobody"
        args = ["-s", str(s), "-n", str(n)]
        if o is None:
            reqdir = "target/data"
        elif o == "ABS":
            reqdir = "absdir/x"
            args += ["-o", os.path.join(cwd, reqdir)]
        elif o == "pre":
            reqdir = "pre/existing"
            os.makedirs(os.path.join(cwd, reqdir))
            # stale files from an earlier, longer run: a regenerated sample must not keep their tail
            for nm in ("random0.bin", "stale.bin"):
                with open(os.path.join(cwd, reqdir, nm), "wb") as fh:
                    fh.write(b"stale" * (n // 8 + 100))
            args += ["-o", reqdir]
        else:
            reqdir = os.path.normpath(o)
            args += ["-o", o]
        sp = special.get(si, {})
        xenv = {"GOMAXPROCS": str(gmp)}
        tmpother = None
        if sp.get("tmpdir_other_fs"):
            import tempfile
            tmpother = tempfile.mkdtemp(prefix="verif-rdgen-tmp.", dir="/dev/shm")
            xenv["TMPDIR"] = tmpother
        before = snapshot(cwd)
        p = vlib.run_bin(pubbin if user else gen, args, timeout=300, env=xenv, cwd=cwd, taskset=ts, user=user, nofile=sp.get("nofile"))
        hang = bool(getattr(p, "timed_out", False))
        if hang:
            p2 = vlib.run_bin(pubbin if user else gen, args, timeout=300, env=xenv, cwd=cwd, taskset=ts, user=user, nofile=sp.get("nofile"))
            if not getattr(p2, "timed_out", False):
                p, hang = p2, False
        after = snapshot(cwd)
        if tmpother:
            shutil.rmtree(tmpother, ignore_errors=True)
        created = []
        for path, (size, sha) in sorted(after.items()):
            if before.get(path) != (size, sha):
                created.append({"dir": os.path.dirname(path) or ".", "name": os.path.basename(path), "size": size, "sha": sha})
        det_s, det_bits = -1, -1
        if n in (20000, 1000000) and not hang and os.path.isdir(os.path.join(cwd, reqdir)) and (n == 20000 or thorough):
            # the stale non-generated file of the "pre" layout would be a sample of another size: remove it first
            if o == "pre":
                try:
                    os.remove(os.path.join(cwd, reqdir, "stale.bin"))
                except OSError:
                    pass
            dp = vlib.run_bin(det, ["-i", os.path.join(cwd, reqdir), "-o", os.path.join(cwd, "rep.csv"), "-n", "4"], timeout=1200, cwd=cwd)
            m = re.search(r"s = (\d+) .*bits = (\d+)", (dp.stderr or "") + (dp.stdout or ""))
            if m and dp.returncode == 0:
                det_s, det_bits = int(m.group(1)), int(m.group(2))
            else:
                det_s, det_bits = 0, 0
        events.append({"ev": "gen", "s": s, "n": n, "dir": reqdir, "code": p.returncode if not hang else -9, "hang": hang, "created": created,
                       "det_s": det_s, "det_bits": det_bits, "id": si})
        metas.append({"args": args, "taskset": ts, "gomaxprocs": gmp, "user": user or "(the check's own)", "special": sp, "stderr": (p.stderr or "")[-400:]})
        run.nontriv(json.dumps([s, n, o, ts, gmp]))
    acc, rej, gen_ = vlib.validate_trace("TraceGen", events, timeout=900, max_rej=50, nsplit=4)
    run.states += acc; run.transitions += gen_; run.traces += acc; run.evaluations += len(events)
    run.sample({"gen_event": {k: v for k, v in events[0].items() if k != "created"}, "created_head": events[0]["created"][:2]})
    for e in rej:
        m = metas[e["id"]]
        dirs = sorted({c["dir"] for c in e["created"]})
        o_given = "-o" in m["args"]
        facts = {"kind": "gen", "o_given": o_given, "wrote_to": ",".join(dirs)[:80] if dirs != [e["dir"]] else "requested", "user": m["user"]}
        run.violation(facts, {"args": m["args"], "user": m["user"], "event": {k: v for k, v in e.items() if k != "created"}, "created_dirs": dirs, "created_head": e["created"][:3], "stderr": m["stderr"]})
    run.rule = ("model: every interleaving of main and <=3 writers for <=4 (5) files; real binary in a scratch cwd: s x n x output path (absent = documented default, relative, nested not existing, absolute, "
                "pre-existing with stale files) x taskset / GOMAXPROCS; tree snapshot before/after; generated 20000-bit (thorough also 10^6-bit) directories are handed to the real rddetector")
    run.explanation = "TraceGen.tla requires exactly s files random0..random(s-1).bin of n/8 bytes in the requested directory, nothing created elsewhere, pairwise different contents."
    run.assumptions = ["writer interleavings inside the process are not controlled"]
    run.finish()


def replay(path):
    print(json.dumps(json.load(open(path))["replay"])[:3000])
