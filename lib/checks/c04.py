"""C04: rank, linear-complexity and Maurer tests never crash and follow the standard (AlgTests.tla)."""
import json, random
import vlib
from checks import statlib, stattrace

PROP = "C04"


def big(run, family, seeds, lcm, nblk, cap, alg_inv, nmat=12):
    mc = "---- MODULE MCBig ----\nEXTENDS GenAlgBig\nMCSeeds == <<%s>>\n====\n" % ", ".join(str(s) for s in seeds)
    cfg = ('CONSTANTS Family="%s" Seeds<-MCSeeds NMat=%d LcM=%d NBlk=%d CAP=%d Stride=%d\nSPECIFICATION Spec\n%sCHECK_DEADLOCK FALSE\n'
           % (family, nmat, lcm, nblk, cap, min(len(seeds), vlib.NCPU), "INVARIANT AlgOnBig\n" if alg_inv else ""))
    r = vlib.tlc_ok(vlib.run_tlc("MCBig", cfg, timeout=3000, extra_files={"MCBig.tla": mc}), "GenAlgBig " + family)
    run.add_tlc(r, "GenAlgBig %s m=%d blocks=%d seeds=%d AlgOnBig=%s" % (family, lcm, nblk, len(seeds), alg_inv))
    vecs = [v for v in r.json if v.get("ev") == "vec"]
    seen, uniq = set(), []
    for v in vecs:
        k = json.dumps(v["label"], sort_keys=True)
        if k not in seen:
            seen.add(k); uniq.append(v)
    return uniq


def run(tier):
    run = vlib.Run(PROP, tier)
    thorough = tier == "thorough"
    rng = random.Random(vlib.seed())
    hz = vlib.go_build()
    allvecs = []
    # ---- rank, small matrices: every bit sequence
    for M, lo, hi in ([(2, 4, 10), (3, 9, 12)] + ([(3, 13, 14), (4, 16, 16)] if thorough else [])):
        r, vecs = statlib.gen_stats("rank", 1, minn=lo, maxn=hi, base="GenAlg", extra_consts="RankM=%d LcM=4 CAP=5" % M)
        run.add_tlc(r, "GenAlg rank M=%d n=%d..%d (all sequences; AlgRank = DefRank)" % (M, lo, hi))
        allvecs += vecs
    # ---- linear complexity, small blocks: every bit sequence; the Go array length is CAP = m + 1 (repaired)
    for m in ([4, 5, 6, 7, 8, 9, 10] + ([11, 12] if thorough else [])):
        hi = min(2 * m + 1, 13 if thorough else 11)
        r, vecs = statlib.gen_stats("lc", 1, minn=m, maxn=max(hi, m), base="GenAlg", extra_consts="RankM=2 LcM=%d CAP=%d" % (m, m + 1),
                                    invariants=("AlgEqualsDef", "InBounds"))
        run.add_tlc(r, "GenAlg lc m=%d n=%d..%d (all sequences; AlgLC = DefLC, InBounds with CAP=m+1)" % (m, m, max(hi, m)))
        allvecs += vecs
    # vacuity guard: with scratch arrays of length m (the pinned commit) the model must leave the array
    cfg = ('CONSTANTS Family="lc" Level=1 MinN=6 MaxN=6 Stride=4 Sizes<-MCSizes Modes<-MCModes Seeds<-MCSeeds RankM=2 LcM=6 CAP=6\n'
           'SPECIFICATION Spec\nINVARIANT InBounds\nCHECK_DEADLOCK FALSE\n')
    r = vlib.run_tlc("MCGen", cfg, timeout=600, extra_files={"MCGen.tla": statlib.mc_module("GenAlg", (100,), ("uni",), (1,))})
    if r.violated != "InBounds":
        raise vlib.InfraError("vacuity guard: CAP = m should violate InBounds, got %s" % r.violated)
    run.configs.append({"config": "negative: GenAlg lc CAP=m", "violates": "InBounds"})
    statlib.replay(run, hz, allvecs)
    run.sample({"L1": {"label": allvecs[-7]["label"], "bits": "".join(map(str, allvecs[-7]["bits"])), "call": allvecs[-7]["calls"][0]}})
    # ---- real parameters through descriptors with lemma-derived values
    nseed = 12 if thorough else 4
    seeds = [rng.randrange(1, 40000) for _ in range(nseed)]
    bigv = big(run, "rank32", seeds, 500, 8, 501, True, nmat=40 if thorough else 16)
    bigv += big(run, "lcbig", seeds[:nseed], 500, 24 if thorough else 14, 501, True)
    bigv += big(run, "lcbig", seeds[:max(2, nseed // 2)], 1000, 10, 1001, thorough)
    bigv += big(run, "lcbig", seeds[:max(2, nseed // 3)], 5000, 6, 5001, False)
    statlib.replay(run, hz, bigv)
    run.sample({"descriptor": {"label": bigv[-1]["label"], "call": {k: v for k, v in bigv[-1]["calls"][0].items() if k != "bits"}}})
    # ---- Maurer: block streams
    sizes = (7 * 1281, 7 * 1281 + 3, 7 * 1300 + 6, 7 * 1500) + ((7 * 2000 + 1, 7 * 3000) if thorough else ())
    r, mv = statlib.gen_stats("maurer", 2, sizes=sizes, modes=("uni", "absent", "periodic", "few"), seeds=tuple(rng.randrange(1, 40000) for _ in range(2 if thorough else 1)),
                              base="GenAlg", extra_consts="RankM=2 LcM=4 CAP=5")
    run.add_tlc(r, "GenAlg maurer sizes=%s (table machine = definitional distances)" % (list(sizes),))
    statlib.replay(run, hz, mv)
    run.sample({"maurer": {"label": mv[1]["label"], "K": mv[1]["calls"][0]["K"], "P": mv[1]["calls"][0]["P"]}})
    # ---- L3: 10^6-bit inputs; proxies (independent GF(2) elimination / textbook BM / distance table) judged by TLC
    inputs = []
    iid = 0
    modes = ["uni", "bias", "runsbias", "periodic"] + (["heavy", "alt", "const0", "onehot", "step"] if thorough else ["const0"])
    for n in ([1000000, 1000003] + ([100000, 4000000] if thorough else [])):
        for mode in (modes if thorough else modes[iid % 2::2]):
            iid += 1
            calls = [{"t": "rank", "M": 32}, {"t": "lc", "m": 500}, {"t": "maurer"}]
            if thorough:
                calls += [{"t": "lc", "m": 1000}, {"t": "lc", "m": 5000}]
            inputs.append({"id": iid, "mode": mode, "n": n, "seed": rng.randrange(1 << 40), "calls": calls})
    # Maurer with planted recurrence distances (2^e - 1, 2^e, 2^e + 1 for e = 6..12, 8192, 16384; 'gapslong': one of 32768, 65535, 65536, 65537, 100000 per input)
    for n in ([1000000, 1000005] + ([4000000] if thorough else [])):
        iid += 1
        inputs.append({"id": iid, "mode": "gaps", "n": n, "seed": rng.randrange(1 << 40), "calls": [{"t": "maurer"}]})
        for sd5 in range(5 if thorough else 2):
            iid += 1
            inputs.append({"id": iid, "mode": "gapslong", "n": n, "seed": 5 * rng.randrange(1 << 36) + (sd5 + iid) % 5, "calls": [{"t": "maurer"}]})
    # Maurer with 127 first occurrences inside one window (sum of logarithms far above the typical one for a stretch)
    for K in ([205, 211, 215, 230] + ([300, 400] if thorough else [])):
        iid += 1
        inputs.append({"id": iid, "mode": "lateburst", "n": 7 * (1280 + K) + (K % 3), "seed": 1, "calls": [{"t": "maurer"}]})
    stattrace.trace_inputs(run, hz, inputs)
    run.rule = ("rank: every bit sequence forming 1-3 matrices of size 2/3(/4) plus tail, 32x32 matrices of every rank by construction; "
                "linear complexity: every bit sequence for m=4..10(12), descriptor blocks (LFSR by lemma, 0^k 1 0^.., zero, one, 0^(m-1)1) for m=500/1000/5000; "
                "Maurer: block streams incl. a pattern absent from the initialisation segment; 10^6-bit seeded inputs via proxies; "
                "a panic of any entry point is a violation; non-trivial = 1e-6 < P* < 1-1e-6")
    run.explanation = "AlgRank = DefRank, AlgLC = DefLC and the array-bounds invariant are model-checked on every enumerated matrix / block; lemma-derived values bind the real parameters."
    run.assumptions = ["rank lemma (permuted [U; C.U]) and LC lemma (recurrence + brute force on the first 2L+2 bits) are checked by TLC at small sizes and used at 32x32 / m >= 500",
                       "L3 proxies are tied to the TLA+ definitions on every small vector of this run"]
    run.finish()


def replay(path):
    statlib.replay_one(path)
