"""C13: batch detector report: one complete, correctly-labelled row per sample file (Detector.tla, Columns.tla)."""
import json, os, random, re, shutil, subprocess
import vlib

PROP = "C13"
DRIVER_TEST = r'''
package main

import (
	"os"
	"sync"
	"testing"
)

// Drives worker_1E8 / resultWriter / Header_1E8 directly (the 10^8-bit scale cannot go through the binary here).
func TestVerifDrive1E8(t *testing.T) {
	files := os.Args[len(os.Args)-1]
	_ = files
	in := os.Getenv("VERIF_1E8_FILES")
	outp := os.Getenv("VERIF_1E8_OUT")
	w, err := os.Create(outp)
	if err != nil {
		t.Fatal(err)
	}
	defer w.Close()
	_, _ = w.WriteString(Header_1E8)
	var names []string
	cur := ""
	for _, c := range in {
		if c == '\n' {
			if cur != "" {
				names = append(names, cur)
			}
			cur = ""
		} else {
			cur += string(c)
		}
	}
	if cur != "" {
		names = append(names, cur)
	}
	var wg sync.WaitGroup
	wg.Add(len(names))
	out := make(chan *R)
	jobs := make(chan string)
	go resultWriter(out, w, &wg)
	go worker_1E8(jobs, out)
	go func() {
		for _, n := range names {
			jobs <- n
		}
	}()
	wg.Wait()
}
'''


def tokenize(cell):
    m = re.match(r"\[\s*(\d+)\]\s+(P1|Q1|P2|Q2|P|Q)\s+(.*)$", cell.strip())
    if not m:
        return {"num": 0, "which": "?", "p": cell.strip(), "lab": ""}
    num, which, rest = int(m.group(1)), m.group(2), m.group(3)
    p, lab = "", ""
    pm = re.search(r"\b([mkd])=(\d+)", rest)
    if "“1”" in rest or "“0”" in rest:
        p = "ones" if "“1”" in rest else "zeros"
        lab = "%s=%s" % (pm.group(1), pm.group(2)) if pm else ""
    elif "前向" in rest:
        p = "fwd"
    elif "后向" in rest:
        p = "bwd"
    elif pm:
        p = "%s=%s" % (pm.group(1), pm.group(2))
    return {"num": num, "which": which, "p": p, "lab": lab}


def parse_report(path):
    with open(path, encoding="utf-8") as fh:
        lines = fh.read().split("\n")
    if lines and lines[-1] == "":
        lines = lines[:-1]
    header = lines[0].split(",") if lines else []
    rows = []
    for ln in lines[1:]:
        parts = ln.split(", ")
        rows.append({"name": parts[0], "vals": parts[1:]})
    return header, rows


def model(run, thorough):
    cfgs = [('{"a","b","c"}', 2, 3, True), ('{"a","b","c","d"}', 3, 4, False), ('{"a","b"}', 3, 2, True)]
    if thorough:
        cfgs += [('{"a","b","c","d","e"}', 3, 5, False), ('{"a","b","c","d"}', 2, 4, True)]
    for files, nw, wgc, live in cfgs:
        c = 'CONSTANTS Files=%s NW=%d WgCount=%d\nSPECIFICATION Spec\nINVARIANTS HeaderFirst OneRowPerFile NoDuplicateRows WgNonNegative\n%sCHECK_DEADLOCK FALSE\n' % (
            files, nw, wgc, "PROPERTY Terminates\n" if live else "")
        r = vlib.tlc_ok(vlib.run_tlc("Detector", c, timeout=1800), "Detector")
        run.add_tlc(r, "Detector files=%s workers=%d%s" % (files, nw, " +liveness" if live else ""))
    # unbounded depth for fixed constants: inductive invariant "every file is in exactly one place; the WaitGroup counts
    # the rows still to be written" discharged by Apalache (typed copy DetectorApa.tla of the same actions)
    vlib.apalache_inductive(run, "DetectorApa", "CInitBig" if thorough else "CInitSmall", safety=("OneRowPerFile",))
    vlib.coverage_audit(run, "Detector", ['CONSTANTS Files={"a","b","c"} NW=2 WgCount=3\nSPECIFICATION Spec\nCHECK_DEADLOCK FALSE\n'],
                        ["MainAdd", "MainHeader", "MainExit", "Walk", "Recv", "Spawn", "Send", "Write"])
    for files, nw, wgc, want in [('{"a","b","c"}', 2, 2, "OneRowPerFile")]:
        c = 'CONSTANTS Files=%s NW=%d WgCount=%d\nSPECIFICATION Spec\nINVARIANTS OneRowPerFile\nCHECK_DEADLOCK FALSE\n' % (files, nw, wgc)
        r = vlib.run_tlc("Detector", c, timeout=600)
        if r.violated != want:
            raise vlib.InfraError("vacuity guard: miscounted wg.Add should violate %s, got %s" % (want, r.violated))
        run.configs.append({"config": "negative: wg.Add(s-1)", "violates": want})


def build_tool(name):
    d = vlib.scratch("tool")
    outp = os.path.join(d, name)
    p = subprocess.run(["go", "build", "-o", outp, "./tools/" + name], cwd=vlib.REPO, capture_output=True, text=True, env=vlib.GOENV, timeout=600)
    if p.returncode != 0:
        raise vlib.InfraError("go build tools/%s failed: %s" % (name, (p.stdout + p.stderr)[-1500:]))
    return outp


def make_files(rng, root, count, nbytes, layout):
    files = []
    os.makedirs(root, exist_ok=True)
    for i in range(count):
        sub = root
        suffix = ".bin"
        if layout in ("nested", "mixed") and i % 3 == 1:
            sub = os.path.join(root, "sub%d" % (i % 4), "deep")
        if layout == "dirlike" and i % 2 == 1:
            sub = os.path.join(root, "batch%d.bin" % (i % 3))     # a DIRECTORY whose name ends like a sample file
        if layout in ("dat", "mixed") and i % 2 == 1:
            suffix = ".dat"
        os.makedirs(sub, exist_ok=True)
        mode = i % 4
        if mode == 0:
            data = rng.randbytes(nbytes)
        elif mode == 1:   # biased
            data = bytes(b & rng.getrandbits(8) if rng.random() < 0.15 else b for b in rng.randbytes(nbytes))
        elif mode == 2:   # sticky
            data = bytearray(rng.randbytes(nbytes))
            for k in range(1, nbytes, 7):
                data[k] = data[k - 1]
            data = bytes(data)
        else:
            data = rng.randbytes(nbytes)
        stem = "s%03d_%d" % (i, rng.randrange(1000))
        if layout == "odd":
            # legal file names that are awkward for format strings, shells and naive parsers
            stem = ["unit%%20A_%d", "50%%_duty_%d", "with space %d", "rng%%d-%d", "\u00fcn\u00ef_%d", "a.bin.b_%d", "%%s%%n_%d"][i % 7] % i
        fn = os.path.join(sub, stem + suffix)
        with open(fn, "wb") as fh:
            fh.write(data)
        files.append(fn)
    if layout == "dirlike":
        os.makedirs(os.path.join(root, "empty.dat"), exist_ok=True)
    if layout in ("mixed", "extra"):
        # non-sample files, some larger than the samples and one exactly of another supported sample size
        for nm, size in (("README.txt", 100), ("notes.binx", 6000), ("data.bin.bak", 125000), ("x.csv", 3 * nbytes + 17)):
            with open(os.path.join(root, nm), "wb") as fh:
                fh.write(rng.randbytes(size))
        # suffixes that differ from .bin/.dat only in letter case, with the size and content of a sample
        for nm in ("ARCHIVE.BIN", "Old.Dat"):
            with open(os.path.join(root, nm), "wb") as fh:
                fh.write(rng.randbytes(nbytes))
    return files


def tables_for(hz, files):
    tmp = vlib.scratch("tt")
    from concurrent.futures import ThreadPoolExecutor
    k = max(1, min(8, len(files)))
    parts = [files[i::k] for i in range(k)]
    def one(idx):
        jp = os.path.join(tmp, "j%d.json" % idx); op = os.path.join(tmp, "o%d.ndjson" % idx)
        with open(jp, "w") as fh:
            json.dump({"files": parts[idx]}, fh)
        p = vlib.run_bin(hz, ["tooltable", jp, op], timeout=3000)
        if p.returncode != 0:
            raise vlib.InfraError("hz tooltable failed: " + (p.stderr or "")[-800:])
        return vlib.read_ndjson(op)
    with ThreadPoolExecutor(max_workers=k) as ex:
        rows = [r for part in ex.map(one, range(k)) for r in part]
    return {r["file"]: r for r in rows}


def optional_files(root):
    """Files under root whose suffix is .bin/.dat only up to letter case (README.BIN, Old.Dat)."""
    out = []
    for d, _, fs in os.walk(root):
        for f in fs:
            if f.lower().endswith((".bin", ".dat")) and not f.endswith((".bin", ".dat")):
                out.append(os.path.join(d, f))
    return sorted(out)


def events_for(scale, files, header, rows, tables, code, hang, exempt=False, optional=()):
    names = [os.path.basename(f) for f in files]
    nbits = tables[names[0]]["nbits"] if names else 0
    ev = [{"ev": "start", "scale": scale, "files": names, "optional": [os.path.basename(f) for f in optional], "nbits": nbits, "exempt": exempt}]
    cells = [tokenize(c) for c in header[1:]] if header else []
    ev.append({"ev": "header", "cells": cells, "first": header[0] if header else ""})
    for r in rows:
        t = tables.get(r["name"], {"table": []})
        ev.append({"ev": "row", "name": r["name"], "vals": r["vals"], "table": t["table"]})
    ev.append({"ev": "exit", "code": code, "hang": hang})
    return ev


def run(tier):
    run = vlib.Run(PROP, tier)
    thorough = tier == "thorough"
    rng = random.Random(vlib.seed())
    model(run, thorough)
    hz = vlib.go_build()
    tool = build_tool("rddetector")
    work = vlib.scratch("rdd")
    scenarios = []
    # (scale bits, count, workers, layout, gomaxprocs, report in new dir)
    if thorough:
        for cnt in (1, 2, 7, 40):
            for n in (1, 2, 3, 8, 64):
                scenarios.append((20000, cnt, n, rng.choice(["flat", "nested", "dat", "mixed"]), rng.choice([1, 4, 16]), rng.random() < 0.3))
        scenarios += [(1000000, 3, 2, "mixed", 16, True), (1000000, 1, 1, "flat", 1, False),
                      (20000, 6, 2, "dirlike", 4, False), (20000, 9, 1, "dirlike", 1, False), (20000, 14, 3, "odd", 4, "stale"), (1000000, 2, 2, "dirlike", 16, "stale")]
    else:
        scenarios = [(20000, 1, 1, "flat", 1, False), (20000, 7, 3, "mixed", 16, True), (20000, 7, 64, "nested", 4, False), (20000, 2, 2, "dat", 16, False),
                     (20000, 6, 1, "extra", 1, False),      # one worker takes every file in turn on one core
                     (20000, 5, 2, "mixed", 2, False),
                     (20000, 4, 2, "dirlike", 4, False),    # directories named like samples (batch1.bin/, empty.dat/)
                     (20000, 7, 3, "odd", 4, "stale"),      # awkward file names; a longer report already exists at the -o path
                     (20000, 40, 2, "flat+fd32", 4, False),  # more samples than the process may hold open files (descriptor limit 32)
                     (20000, 5, 2, "nested+linkslash", 4, False),   # -i names a symbolic link to the directory, with a trailing slash
                     (1000000, 1, 2, "flat", 16, False)]
    # an ordinary (unprivileged) user writing the report into a directory that does not exist yet (when the check itself does
    # not run as root, the "report in new dir" scenarios above already are of this kind)
    unpriv = set()
    pubtool = None
    if vlib.can_drop_privileges():
        os.chmod(work, 0o777)
        pubdir = vlib.scratch("rddbin")
        os.chmod(pubdir, 0o755)
        pubtool = os.path.join(pubdir, "rddetector")
        shutil.copy(tool, pubtool)
        os.chmod(pubtool, 0o755)
        for sc_ in [(20000, 3, 2, "flat", 4, True), (20000, 2, 1, "nested", 1, True)]:
            unpriv.add(len(scenarios))
            scenarios.append(sc_)
    run.extra["unprivileged_scenarios"] = len(unpriv)
    groups = []
    metas = []
    for si, (scale, cnt, n, layout, gmp, newdir) in enumerate(scenarios):
        user = "nobody" if si in unpriv else None
        root = os.path.join(work, "in%d" % si)
        layout, _, opt = layout.partition("+")
        files = make_files(rng, root, cnt, scale // 8, layout)
        nofile = 32 if opt == "fd32" else None
        iarg = root
        if opt == "linkslash":
            os.symlink(root, os.path.join(work, "link%d" % si))
            iarg = os.path.join(work, "link%d" % si) + "/"
        rep = os.path.join(work, "out%d" % si, "nested", "report.csv") if newdir is True else os.path.join(work, "report%d.csv" % si)
        if newdir == "stale":
            with open(rep, "w") as fh:
                fh.write("stale header\n" + "".join("old_sample_%d.bin, 0.111111, 0.222222\n" % k for k in range(3000)))
        p = vlib.run_bin(pubtool if user else tool, ["-i", iarg, "-o", rep, "-n", str(n)], timeout=900 if scale > 20000 else 120, env={"GOMAXPROCS": str(gmp)}, cwd=work, user=user, nofile=nofile)
        hang = bool(getattr(p, "timed_out", False))
        if hang:
            # reproduce once before believing a hang
            p2 = vlib.run_bin(pubtool if user else tool, ["-i", iarg, "-o", rep, "-n", str(n)], timeout=900 if scale > 20000 else 120, env={"GOMAXPROCS": str(gmp)}, cwd=work, user=user, nofile=nofile)
            if not getattr(p2, "timed_out", False):
                p, hang = p2, False
        header, rows = parse_report(rep) if os.path.exists(rep) else ([], [])
        opt = optional_files(root)
        tables = tables_for(hz, files + opt)
        groups.append(events_for(scale, files, header, rows, tables, p.returncode if not hang else -9, hang, optional=opt))
        metas.append({"scenario": {"scale": scale, "files": cnt, "workers": n, "layout": layout, "gomaxprocs": gmp, "report_in_new_dir": newdir, "user": user or "(the check's own)", "option": opt},
                      "stderr_tail": (p.stderr or "")[-600:], "rows": len(rows)})
        run.nontriv(json.dumps(metas[-1]["scenario"], sort_keys=True))
    # ---- the report goes to a slow sink (a named pipe with a one-page buffer, drained a few hundred bytes at a time, as when
    # the report is piped into another program): the writer goroutine is then blocked most of the time, and the run may only
    # end once the last row has really been handed to the sink
    import fcntl, threading, time as _t
    # (the pipe hands space back to the writer a page at a time, so which row has to wait depends on the byte count: the run
    # is repeated with k, k+1, ... sample files so that for one of them it is the very last row)
    roots = os.path.join(work, "in_slow")
    k0, kn = (24, 40) if thorough else (20, 34)
    files_all = make_files(rng, roots, kn, 2500, "flat")
    tables_all = tables_for(hz, files_all)

    def slow_run(k):
        rootk = os.path.join(work, "in_slow_%d" % k)
        os.makedirs(rootk)
        fk = []
        for f in files_all[:k]:
            dst = os.path.join(rootk, os.path.basename(f))
            os.link(f, dst)
            fk.append(dst)
        fifo = os.path.join(work, "report_slow_%d.fifo" % k)
        os.mkfifo(fifo)
        rfd = os.open(fifo, os.O_RDONLY | os.O_NONBLOCK)
        try:
            fcntl.fcntl(rfd, 1031, 4096)    # F_SETPIPE_SZ
        except OSError:
            pass
        got = bytearray()
        state = {"done": False}

        def drain():
            while True:
                try:
                    chunk = os.read(rfd, 256)
                except BlockingIOError:
                    chunk = None
                if chunk:
                    got.extend(chunk)
                    _t.sleep(0.004)
                elif state["done"]:
                    break
                else:
                    _t.sleep(0.002)
        th = threading.Thread(target=drain)
        th.start()
        ps = vlib.run_bin(tool, ["-i", rootk, "-o", fifo, "-n", "3"], timeout=300, cwd=work)
        state["done"] = True
        th.join()
        os.close(rfd)
        repk = os.path.join(work, "report_slow_%d.csv" % k)
        with open(repk, "wb") as fh:
            fh.write(bytes(got))
        header, rows = parse_report(repk)
        to = bool(getattr(ps, "timed_out", False))
        return (events_for(20000, fk, header, rows, tables_all, ps.returncode if not to else -9, to),
                {"scenario": {"scale": 20000, "files": k, "workers": 3, "layout": "flat", "report": "named pipe, 4096-byte buffer, drained 256 bytes at a time"},
                 "stderr_tail": (ps.stderr or "")[-600:], "rows": len(rows)})
    for k in range(k0, kn + 1):
        g, m = slow_run(k)
        groups.append(g)
        metas.append(m)
    run.nontriv("slow-sink")
    # ---- beyond the property: unsupported sample size -> terminates without a report
    rootu = os.path.join(work, "in_unsupported")
    make_files(rng, rootu, 3, 1000, "flat")
    repu = os.path.join(work, "report_unsupported.csv")
    pu = vlib.run_bin(tool, ["-i", rootu, "-o", repu, "-n", "2"], timeout=60, cwd=work)
    groups.append([{"ev": "unsupported", "code": pu.returncode, "hang": bool(getattr(pu, "timed_out", False)), "report_exists": os.path.exists(repu)}])
    metas.append({"scenario": {"scale": "unsupported (8000-bit files)"}, "stderr_tail": (pu.stderr or "")[-300:], "rows": 0})
    # ---- 10^8-bit scale: worker_1E8 driven directly on smaller files
    sc = vlib.scratch("rdd1e8")
    for f in os.listdir(os.path.join(vlib.REPO, "tools", "rddetector")):
        if f.endswith(".go") and not f.endswith("_test.go"):
            shutil.copy(os.path.join(vlib.REPO, "tools", "rddetector", f), sc)
    with open(os.path.join(sc, "verif_drive_test.go"), "w") as fh:
        fh.write(DRIVER_TEST)
    with open(os.path.join(sc, "go.mod"), "w") as fh:
        fh.write("module rddscratch\n\ngo 1.21\n\nrequire github.com/Trisia/randomness v0.0.0\n\nreplace github.com/Trisia/randomness => %s\n" % vlib.REPO)
    nbytes8 = 125000 if thorough else 12500
    root8 = os.path.join(work, "in1e8")
    files8 = make_files(rng, root8, 2 if thorough else 1, nbytes8, "flat")
    rep8 = os.path.join(work, "report1e8.csv")
    env = dict(vlib.GOENV, VERIF_1E8_FILES="\n".join(files8), VERIF_1E8_OUT=rep8)
    p = subprocess.run(["go", "test", "-count=1", "-run", "TestVerifDrive1E8", "-timeout", "20m", "."], cwd=sc, capture_output=True, text=True, env=env, timeout=1500)
    if p.returncode != 0 and "panic" not in (p.stdout + p.stderr):
        raise vlib.InfraError("1E8 worker driver failed to build/run: " + (p.stdout + p.stderr)[-1500:])
    header, rows = parse_report(rep8) if os.path.exists(rep8) else ([], [])
    tables = tables_for(hz, files8)
    groups.append(events_for(100000000, files8, header, rows, tables, 0 if p.returncode == 0 else p.returncode, False, exempt=not thorough))
    metas.append({"scenario": {"scale": "1e8 worker on %d-bit files" % (nbytes8 * 8), "files": len(files8)}, "stderr_tail": (p.stdout + p.stderr)[-600:], "rows": len(rows)})
    run.nontriv("1e8")
    # ---- TLC judges every run
    for gi, g in enumerate(groups):
        for e in g:
            e["id"] = gi
    acc, rej, gen = vlib.validate_trace("TraceDetector", None, groups=groups, resync=lambda e: e["ev"] == "start", max_rej=50, timeout=3000, nsplit=min(8, len(groups)))
    run.states += acc; run.transitions += gen
    rej_ids = []
    for e in rej:
        if e["id"] not in rej_ids:
            rej_ids.append(e["id"])
    run.traces += len(groups) - len(rej_ids)
    run.evaluations += sum(len(g) for g in groups)
    for e in rej:
        gi = e["id"]
        facts = {"kind": e["ev"], "scale": str(metas[gi]["scenario"].get("scale"))}
        detail = {"scenario": metas[gi]["scenario"], "rejected_event": {k: v for k, v in e.items() if k != "table"}, "stderr_tail": metas[gi]["stderr_tail"]}
        if e["ev"] == "row":
            # name the first offending column for the finding key
            hdr = [x for x in groups[gi] if x["ev"] == "header"][0]["cells"]
            from decimal import Decimal, ROUND_HALF_EVEN
            tests12 = ["mono", "block", "poker", "serial", "runs", "rundist", "longest", "bd", "ac", "cusum", "apen", "dft"]
            tests15 = ["mono", "block", "poker", "serial", "runs", "rundist", "longest", "bd", "ac", "rank", "cusum", "apen", "lc", "maurer", "dft"]
            names = tests12 if metas[gi]["scenario"].get("scale") == 20000 else tests15
            for ci, cell in enumerate(hdr):
                if ci >= len(e["vals"]) or not (1 <= cell["num"] <= len(names)):
                    facts["column"] = "col%d" % ci
                    break
                t = names[cell["num"] - 1]
                ent = [r for r in e["table"] if r["t"] == t and r["p"] == cell["p"]]
                fld = {"P": "P", "P1": "P", "Q": "Q", "Q1": "Q", "P2": "P2", "Q2": "Q2"}.get(cell["which"], "P")
                if not ent:
                    facts["column"] = "%s %s %s (no such library entry)" % (t, cell["p"], cell["which"]); break
                try:
                    want = str(Decimal(ent[0][fld]).quantize(Decimal("0.000001"), rounding=ROUND_HALF_EVEN))
                except Exception:
                    want = "(library value is not a number: %s)" % ent[0][fld]
                if want != e["vals"][ci]:
                    facts["column"] = "%s %s %s" % (t, cell["p"], cell["which"])
                    detail["expected"] = want; detail["reported"] = e["vals"][ci]
                    break
        elif e["ev"] == "header":
            bad = [c for c in e["cells"]]
            for i in range(0, len(bad) - 1, 2):
                a, b = bad[i], bad[i + 1]
                if a["num"] != b["num"] or a["p"] != b["p"] or a["lab"] != b["lab"]:
                    facts["column"] = "header pair %s %s / %s %s" % (a["which"], a["p"], b["which"], b["p"])
                    break
        run.violation(facts, detail)
    run.sample({"scenario": metas[1]["scenario"], "header_cells_head": groups[1][1]["cells"][:3], "row_head": {"name": groups[1][2]["name"], "vals": groups[1][2]["vals"][:4]}})
    run.rule = ("model: every interleaving of walker / workers / spawned senders / writer for <=4 (5) files and <=3 workers; real binary: scenarios (scale x file count x -n x layout x GOMAXPROCS x report path); "
                "every row x every column compared (6 decimals) with the library value the header names; the 10^8-bit worker driven directly on smaller files; each scenario counts once")
    run.explanation = "TraceDetector.tla checks header structure, one row per sample file, column count, and each value against the library table of that file; Detector.tla carries the pipeline."
    run.assumptions = ["goroutine interleavings inside the separate process are not controlled (worker counts / GOMAXPROCS vary them)",
                       "the 10^8-bit scale is exercised at the worker-function level on 10^5 (thorough 10^6)-bit files; its longest-run label is exempted below 750000 bits"]
    run.finish()


def replay(path):
    print(json.dumps(json.load(open(path))["replay"], ensure_ascii=False)[:4000])
