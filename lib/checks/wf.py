"""Shared helpers for the workflow properties (C07-C10, C14): job construction for the Go driver,
projection of driver results to TraceWorkflow.tla events, and violation reporting."""
import json, os, random
import vlib

KINDS = {
    "FactoryDetect": (50, 125000, 15, False), "PowerOnDetect": (20, 125000, 15, False), "PeriodDetect": (20, 2500, 12, False),
    "FactoryDetectFast": (50, 125000, 15, True), "PowerOnDetectFast": (20, 125000, 15, True), "PeriodDetectFast": (20, 2500, 12, True),
}
SEQ_OF = {"FactoryDetectFast": "FactoryDetect", "PowerOnDetectFast": "PowerOnDetect", "PeriodDetectFast": "PeriodDetect"}


def flat(s):
    return [s // 10] * 10


def plan_items(vec_plan, items, s):
    """GenVerdict vector plan (list of {item, pass, hist{0..9}}) -> driver ItemPlan list (all 15 slots) and
    the per-item cnt / hist lists (length `items`) for the trace `begin` event."""
    out = [{"pass": s, "hist": flat(s), "qmode": "center"} for _ in range(15)]
    for e in vec_plan:
        h = e["hist"]
        hl = [h[str(b)] for b in range(10)] if isinstance(h, dict) else list(h)
        out[e["item"] - 1] = {"pass": e["pass"], "hist": hl, "qmode": e.get("qmode", "center")}
    cnt = [out[i]["pass"] for i in range(items)]
    hist = [out[i]["hist"] for i in range(items)]
    return out, cnt, hist


def mkjob(jid, fn, items_plan=None, plan_seed=1, policy="full", size=0, rseed=1, fail_at=-1, fail_kind="custom",
          delay_us=0, round_delay_us=0, stream=None, timeout_ms=5000, tag="", qmode=None, mode="stub", log_reads=False):
    s, sb, items, fast = KINDS[fn]
    ip = items_plan or [{"pass": s, "hist": flat(s), "qmode": "center"} for _ in range(15)]
    if qmode:
        ip = [dict(x, qmode=qmode) for x in ip]
    return {"id": jid, "fn": fn, "mode": mode, "items": ip, "planSeed": plan_seed,
            "reader": {"policy": policy, "size": size, "seed": rseed, "failAt": fail_at, "failKind": fail_kind, "delayUs": delay_us},
            "stream": stream or {"kind": "self", "salt": 1000 + jid % 9973, "len": -1},
            "timeoutMs": timeout_ms, "roundDelayUs": round_delay_us, "tag": tag, "logReads": log_reads}


def trace_events(job, res, cnt, hist):
    """Project one driver result to the events TraceWorkflow.tla consumes (fields always present)."""
    s, sb, items, fast = KINDS[job["fn"]]
    total = s * sb
    fa = job["reader"]["failAt"]
    slen = job["stream"].get("len", -1)
    fault = (0 <= fa < total) or (0 <= slen < total)
    real = job.get("mode") == "real"
    ev = [{"ev": "begin", "fn": job["fn"], "s": s, "sb": sb, "items": items, "fast": fast, "cnt": cnt, "hist": hist,
           "fault": fault, "id": job["id"], "real": real, "qs": res.get("qs", []) if real else [],
           "mustreject": bool(job.get("mustreject", False)), "decide": not (real and "qs" not in res)}]
    for e in res.get("events", []):
        if e.get("ev") == "round":
            ev.append({"ev": "round", "sample": e["sample"], "items": e["items"], "start": e["start"], "bad": e["bad"], "id": job["id"]})
    ev.append({"ev": "ret", "hang": bool(res.get("hang")), "panic": "panic" in res, "verdict": bool(res.get("verdict", False)),
               "haserr": bool(res.get("haserr", False)), "named": int(res.get("named", 0)), "consumed": int(res.get("consumed", -1)),
               "maxreq": int(res.get("maxreq", -1)), "leak": int(res.get("leak", 0)), "late": int(res.get("late", 0)), "id": job["id"]})
    return ev


def run_and_validate(run, hz, jobs, meta, nproc=None, taskset=None, env=None, timeout=1800, confirm=True, shuffle=True):
    """Runs driver jobs, validates the projected traces with TLC (TraceWorkflow), re-executes rejected
    jobs once (a verdict needs the real code to do it twice), reports violations.
    meta: id -> dict(cnt=, hist=, facts=) ; returns (results, rejected job ids)."""
    # execution order is a seeded shuffle of the job list: every driver process then runs the workflows of all kinds
    # interleaved (a 15-item run before a 12-item one, a 125000-byte sample before a 2500-byte one, ...), so a result
    # that depends on what the process did before is judged like any other result
    order = list(jobs)
    if shuffle:
        random.Random(vlib.seed() * 7919 + len(jobs)).shuffle(order)
    rows, crashed = vlib.run_hz_jobs(hz, "workflow", order, nproc=nproc, taskset=taskset, env=env, timeout=timeout)
    byid = {j["id"]: j for j in jobs}
    for c in crashed:
        j = c["first_missing"]
        if j is None:
            raise vlib.InfraError("hz workflow exited rc=%s without missing jobs: %s" % (c["rc"], c["stderr"][-500:]))
        # the driver process died while executing job j: a crash of the real code (worker panic) or a watchdog kill
        rows[j["id"]] = {"id": j["id"], "fn": j["fn"], "hang": bool(c["timed_out"]), "panic": "process died rc=%s: %s" % (c["rc"], c["stderr"][-400:]),
                         "events": [], "verdict": False, "haserr": False, "named": 0, "consumed": -1, "maxreq": -1, "leak": 0, "crashed": True}
        for mid in c["missing"][1:]:
            rows[mid] = None  # never ran
    groups = []
    gid = []
    for j in jobs:
        r = rows.get(j["id"])
        if r is None or r.get("skipped"):
            continue
        m = meta[j["id"]]
        groups.append(trace_events(j, r, m["cnt"], m["hist"]))
        gid.append(j["id"])
    acc, rej, gen = vlib.validate_trace("TraceWorkflow", None, groups=groups, resync=lambda e: e["ev"] == "begin", max_rej=8, timeout=timeout)
    run.states += acc
    run.transitions += gen
    rej_ids = []
    for e in rej:
        if e["id"] not in rej_ids:
            rej_ids.append(e["id"])
    run.traces += len(groups) - len(rej_ids)
    run.evaluations += len(groups)
    confirmed = []
    if len(rej_ids) > 6:
        # confirm a handful; more of the same adds time, not information
        rej_ids = rej_ids[:6]
    if rej_ids and confirm:
        again_jobs = [byid[i] for i in rej_ids]
        rows2, crashed2 = vlib.run_hz_jobs(hz, "workflow", again_jobs, nproc=min(len(again_jobs), nproc or vlib.NCPU), taskset=taskset, env=env, timeout=timeout)
        for c in crashed2:
            j = c["first_missing"]
            if j is not None:
                rows2[j["id"]] = {"id": j["id"], "fn": j["fn"], "hang": bool(c["timed_out"]), "panic": "process died", "events": [], "crashed": True}
        g2 = []
        ids2 = []
        for j in again_jobs:
            r2 = rows2.get(j["id"])
            if r2 is None or r2.get("skipped"):
                continue
            g2.append(trace_events(j, r2, meta[j["id"]]["cnt"], meta[j["id"]]["hist"]))
            ids2.append(j["id"])
        _, rej2, _ = vlib.validate_trace("TraceWorkflow", None, groups=g2, resync=lambda e: e["ev"] == "begin", max_rej=len(g2) + 1, timeout=timeout)
        again_rej = {e["id"] for e in rej2}
        for i in rej_ids:
            first = [e for e in rej if e["id"] == i][0]
            rec = {"job": byid[i], "rejected_event": first, "result": {k: v for k, v in (rows.get(i) or {}).items() if k != "events"},
                   "events_head": (rows.get(i) or {}).get("events", [])[:6], "reproduced": i in again_rej}
            if first.get("hang") and i not in again_rej:
                # alone in a fresh process the job returns. Before calling it load, run it again the way it ran: after the
                # jobs that preceded it in its driver process (a lock left behind by an earlier call hangs only the later one)
                kparts = max(1, min(nproc or vlib.NCPU, len(order)))
                part = [p_ for p_ in (order[x::kparts] for x in range(kparts)) if any(j_["id"] == i for j_ in p_)][0]
                prefix = part[: [j_["id"] for j_ in part].index(i) + 1]
                rows3, crashed3 = vlib.run_hz_jobs(hz, "workflow", prefix, nproc=1, taskset=taskset, env=env, timeout=timeout)
                r3 = rows3.get(i)
                hung_again = bool(r3 and r3.get("hang")) or any(c.get("timed_out") for c in crashed3)
                if not hung_again:
                    # a watchdog expiry that does not reproduce either way is load, not a verdict (DESIGN 3.3)
                    print("WARN unreproduced watchdog expiry on job %s (%s) ignored" % (i, byid[i]["fn"]), flush=True)
                    continue
                rec["reproduced_after_preceding_jobs"] = [j_["id"] for j_ in prefix]
                rec["preceding_jobs"] = [{k_: v_ for k_, v_ in j_.items() if k_ != "items"} for j_ in prefix[-6:-1]]
            # otherwise the recorded behaviour of the real code itself contradicts the spec; schedule-dependent
            # rejections need not reproduce on a second free-running execution
            confirmed.append((i, rec))
        for i, rec in confirmed:
            facts = dict(meta[i].get("facts", {}))
            facts.update({"fn": byid[i]["fn"], "rejected": rec["rejected_event"]["ev"], "tag": byid[i].get("tag", "")})
            run.violation(facts, rec)
    return rows, rej_ids


# ---------------------------------------------------------------- SingleDetect helpers
def mk_single(jid, num_byte, stream_seed=1, policy="full", size=0, rseed=1, fail_at=-1, fail_kind="custom", slen=-1, tag="", stream=None):
    return {"id": jid, "fn": "SingleDetect", "mode": "real", "items": [], "planSeed": 0, "numByte": num_byte,
            "reader": {"policy": policy, "size": size, "seed": rseed, "failAt": fail_at, "failKind": fail_kind, "delayUs": 0},
            "stream": stream or {"kind": "seeded", "seed": stream_seed, "len": slen}, "timeoutMs": 20000, "roundDelayUs": 0, "tag": tag}


def single_event(job, res, ref_verdict):
    nb = job["numByte"]
    fa = job["reader"]["failAt"]
    slen = job["stream"].get("len", -1)
    fault = (0 <= fa < nb) or (0 <= slen < nb)
    return {"ev": "single", "numByte": nb, "fault": fault, "hang": bool(res.get("hang")), "panic": "panic" in res,
            "verdict": bool(res.get("verdict", False)), "haserr": bool(res.get("haserr", False)),
            "consumed": int(res.get("consumed", -1)), "maxreq": int(res.get("maxreq", -1)), "leak": int(res.get("leak", 0)),
            "ref": bool(ref_verdict), "id": job["id"]}
