"""C06: the exported incomplete-gamma tail function is accurate, bounded and monotone (TraceIgamc.tla).

This is the property model-based verification fits worst (numeric accuracy of one floating-point function): it is decided
by the specification only because the specification owns an independent definition of Q(a,x) for integer and half-integer
shapes (closed finite form in the real layer). The assurance is dense grid exploration judged by TLC, not a proof of a bound."""
import json, os, random
from decimal import Decimal
import vlib

PROP = "C06"
LIB_SHAPES = [1, 2, 3, 4, 5, 6, 8, 9, 10, 12, 14, 15, 16, 18, 20, 22, 24, 26, 28, 30, 32, 34, 36, 38, 40, 42, 64, 100, 128, 200, 255, 256, 1000, 2000, 10000]


def run(tier):
    run = vlib.Run(PROP, tier, level="exploration")
    thorough = tier == "thorough"
    rng = random.Random(vlib.seed())
    hz = vlib.go_build()
    if thorough:
        shapes = list(range(1, 10001))
    else:
        off = rng.randrange(16)
        shapes = sorted(set(LIB_SHAPES + list(range(1 + 2 * off, 10001, 32)) + [9999, 10000] + list(range(1, 65))))
    mc = "---- MODULE MCIg ----\nEXTENDS GenIgamc\nMCShapes == <<%s>>\n====\n" % ", ".join(map(str, shapes))
    cfg = "CONSTANTS Shapes<-MCShapes Stride=%d\nSPECIFICATION Spec\nCHECK_DEADLOCK FALSE\n" % (2 * vlib.NCPU)
    r = vlib.tlc_ok(vlib.run_tlc("MCIg", cfg, timeout=3000, extra_files={"MCIg.tla": mc}), "GenIgamc")
    run.add_tlc(r, "GenIgamc %d shapes" % len(shapes))
    chains = {}
    for v in r.json:
        if v.get("ev") == "chain":
            chains[v["a2"]] = v
    if len(chains) != len(shapes):
        raise vlib.InfraError("GenIgamc emitted %d chains for %d shapes" % (len(chains), len(shapes)))
    jobs = [{"a2": a2, "xs": chains[a2]["xs"], "id": a2} for a2 in sorted(chains)]
    tmp = vlib.scratch("ig")
    jp = os.path.join(tmp, "j.json"); op = os.path.join(tmp, "o.ndjson")
    with open(jp, "w") as fh:
        json.dump({"chains": jobs}, fh)
    p = vlib.run_bin(hz, ["igamc-trace", jp, op], timeout=1200)
    crashed_events = []
    if p.returncode != 0:
        # the function under test may have killed the process (unbounded recursion is not recoverable in Go): find the chain by
        # streaming the events, then run that chain alone; only a reproduced crash of the real code is a verdict
        remaining = list(jobs)
        collected = []
        for attempt in range(4):
            with open(jp, "w") as fh:
                json.dump({"chains": remaining, "stream": True}, fh)
            if os.path.exists(op):
                os.remove(op)
            p2 = vlib.run_bin(hz, ["igamc-trace", jp, op], timeout=1200)
            evs = vlib.read_ndjson(op) if os.path.exists(op) else []
            collected += evs
            if p2.returncode == 0:
                break
            if getattr(p2, "timed_out", False) or len(evs) >= len(remaining):
                raise vlib.InfraError("igamc-trace failed: " + (p2.stderr or "")[-800:])
            culprit = remaining[len(evs)]
            with open(jp, "w") as fh:
                json.dump({"chains": [culprit], "stream": True}, fh)
            p3 = vlib.run_bin(hz, ["igamc-trace", jp, op + ".one"], timeout=600)
            if p3.returncode == 0:
                raise vlib.InfraError("igamc-trace crash not reproducible on chain a2=%s: %s" % (culprit["a2"], (p2.stderr or "")[-600:]))
            head = "\n".join((p3.stderr or "").splitlines()[:12])
            run.violation({"kind": "crash", "a2": culprit["a2"]}, {"cmd": "igamc-trace", "chain": culprit, "stderr_head": head[:2000],
                                                                   "why": "the process evaluating this chain dies (fatal error / unrecoverable panic in Igamc)"})
            remaining = remaining[len(evs) + 1:]
            if not remaining:
                break
        events = collected
    else:
        events = vlib.read_ndjson(op)
    for e in events:
        if e.get("panic"):
            run.violation({"kind": "panic", "a2": e["a2"]}, {"cmd": "igamc-trace", "chain": chains[e["a2"]]})
    # a platform whose int has 32 bits (GOARCH=386 build of the driver): the library shapes and a stride of the others again
    try:
        hz386 = vlib.go_build(goarch="386")
        ok386 = vlib.can_run_386(hz386)
    except vlib.InfraError:
        ok386 = False
    run.extra["int32_platform_pass"] = bool(ok386)
    if ok386:
        sub = [j for j in jobs if j["a2"] <= 64 or j["a2"] in LIB_SHAPES or j["a2"] % 7 == 0]
        with open(jp, "w") as fh:
            json.dump({"chains": sub}, fh)
        op3 = os.path.join(tmp, "o386.ndjson")
        p3 = vlib.run_bin(hz386, ["igamc-trace", jp, op3], timeout=1200)
        if p3.returncode != 0:
            run.violation({"kind": "crash", "arch": "386"}, {"cmd": "igamc-trace", "arch": "386", "stderr_head": "\n".join((p3.stderr or "").splitlines()[:12])[:2000]})
        else:
            ev3 = vlib.read_ndjson(op3)
            for e in ev3:
                e["arch"] = "386"
                if e.get("panic"):
                    run.violation({"kind": "panic", "a2": e["a2"], "arch": "386"}, {"cmd": "igamc-trace", "arch": "386", "chain": chains[e["a2"]]})
            events += ev3
    events = [e for e in events if not e.get("panic")]
    # heavy shapes first so that the splits are balanced
    events.sort(key=lambda e: -e["a2"])
    acc, rej, gen = vlib.validate_trace("TraceIgamc", events, nsplit=vlib.NCPU, timeout=6000, max_rej=3)
    run.states += acc; run.transitions += gen; run.traces += acc
    npts = sum(len(e["xs"]) for e in events)
    run.evaluations += npts
    regions = {"nonpositive": 0, "series": 0, "fraction": 0, "underflow": 0}
    nontriv = 0
    notnum = 0
    for e in events:
        a = Decimal(e["a2"]) / 2
        for x, q in zip(e["xs"], e["qs"]):
            try:
                dx, dq = Decimal(x), Decimal(q)
                if not (dx.is_finite() and dq.is_finite()):
                    raise ValueError
            except Exception:
                notnum += 1      # NaN / Inf returned by the function under test: TLC rejects the chain; only the bookkeeping skips it
                continue
            if dx <= 0:
                regions["nonpositive"] += 1
            elif dx < 1 or dx < a:
                regions["series"] += 1
            elif dq == 0:
                regions["underflow"] += 1
            else:
                regions["fraction"] += 1
            if Decimal("1e-9") < dq < Decimal("0.999999999"):
                nontriv += 1
    for k, v in regions.items():
        if v == 0:
            raise vlib.InfraError("vacuity: no grid point in region " + k)
    run.nontrivial_count += nontriv
    run.extra["points_per_region"] = regions
    run.extra["non_numeric_results"] = notnum
    run.extra["shapes"] = len(shapes)
    run.sample({"chain_event": {"a2": events[-3]["a2"], "xs": events[-3]["xs"][20:24], "qs": events[-3]["qs"][20:24]}})
    for e in rej:
        # locate the first offending point for the replay file
        run.violation({"kind": "igamc", "a2": e["a2"], "arch": e.get("arch", "amd64")}, {"cmd": "igamc-trace", "arch": e.get("arch", "amd64"), "event": e, "why": "TraceIgamc.tla rejects the chain (accuracy 1e-12 + 1e-14 a, range, exact 1 at x <= 0, or monotonicity)"})
    run.rule = ("shapes 2a: every value the library can produce plus a 1-in-32 stride over 1..10000 and all of 1..64 (thorough: all 10000) x a chain of 140 arguments: "
                "-1, 0, 1e-300 .. 1e-4 (one per few decades), around x = 1 and x = a down to one ulp, a + t sqrt a for t = -8..40 step 1/2, 2a..10a, a+690..a+745, 20a+200; "
                "non-trivial point = 1e-9 < Q < 1 - 1e-9 (counted)")
    run.explanation = "Grid exploration judged by TLC against the closed finite form of Q(a,x); per-region coverage is measured and an empty region aborts the run."
    run.assumptions = ["the BigDecimal closed form of Q(a,x) for integer / half-integer a is the trusted reference (axioms + mpmath vectors)",
                       "assurance is a dense grid, not a bound for every real argument"]
    run.finish()


def replay(path):
    rp = json.load(open(path))["replay"]
    print(json.dumps(rp)[:3000])
