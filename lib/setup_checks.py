#!/usr/bin/env python3
"""Setup-time sanity of the specification tree and the real-number layer."""
import os, subprocess, sys
from decimal import Decimal, getcontext
sys.path.insert(0, os.path.dirname(os.path.abspath(__file__)))
import vlib

getcontext().prec = 60


def main():
    vlib.ensure_realfn()
    # 1. mpmath vectors (generated once with mpmath at 70 digits, committed)
    vec = [l.strip() for l in open(os.path.join(vlib.SPEC, "realfn_vectors.txt")) if l.strip()]
    inp = "\n".join(l.split("|")[0].strip() for l in vec) + "\n"
    p = subprocess.run(["java", "-cp", vlib.BUILD + ":" + vlib.TLAJAR, "RealFn"], input=inp, capture_output=True, text=True)
    if p.returncode != 0:
        print("ERROR RealFn main failed", p.stderr[-2000:]); sys.exit(2)
    got = p.stdout.split()
    if len(got) != len(vec):
        print("ERROR RealFn vector count mismatch"); sys.exit(2)
    worst = Decimal(0)
    for l, g in zip(vec, got):
        exp = Decimal(l.split("|")[1].strip())
        gv = Decimal(g)
        err = abs(gv - exp)
        rel = err / max(abs(exp), Decimal("1e-300")) if exp != 0 else err
        # absolute 1e-40 or relative 1e-38
        if err > Decimal("1e-40") and rel > Decimal("1e-38"):
            print("ERROR RealFn disagrees with mpmath on:", l, "got", g); sys.exit(2)
        worst = max(worst, min(err, rel))
    print("realfn: %d mpmath vectors agree (worst min(abs,rel) error %.2e)" % (len(vec), worst))
    # 2. SANY over every module
    d = vlib.prepare_spec_dir()
    bad = 0
    for f in sorted(os.listdir(d)):
        if not f.endswith(".tla"):
            continue
        ext = open(os.path.join(d, f)).read().split("EXTENDS", 1)[-1].split("\n")[0]
        if "Apalache" in ext or "TLAPS" in ext:
            continue   # modules for Apalache / TLAPS (their standard modules are not on the TLC/SANY path); parsed by those tools
        r = subprocess.run(["java", "-cp", vlib.TLAJAR + ":" + vlib.CMJAR + ":.", "tla2sany.SANY", f], cwd=d, capture_output=True, text=True)
        if r.returncode != 0 or "error" in (r.stdout + r.stderr).lower().replace("errors: 0", ""):
            if "Semantic errors" in r.stdout or "Parse Error" in r.stdout or "Fatal" in r.stdout or r.returncode != 0:
                print("ERROR SANY", f, (r.stdout + r.stderr)[-1500:]); bad += 1
    if bad:
        sys.exit(2)
    print("sany: all modules parse")
    # 3. real-layer axioms
    r = vlib.run_tlc("RealFnAxioms", "INIT Init\nNEXT Next\nCHECK_DEADLOCK FALSE\n", workers=2, timeout=600, specdir=d)
    if r.rc != 0 or r.violated:
        print("ERROR RealFnAxioms failed", "\n".join(r.out.splitlines()[-20:])); sys.exit(2)
    print("axioms: RealFnAxioms checked by TLC")
    # 4. harness builds against /repo
    vlib.go_build()
    print("harness: builds")


if __name__ == "__main__":
    try:
        main()
    except vlib.InfraError as e:
        print("ERROR", e); sys.exit(2)
