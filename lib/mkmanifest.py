#!/usr/bin/env python3
"""Regenerates /verif/MANIFEST.json from the table below (one source of truth for the interface)."""
import json, os
VERIF = os.path.dirname(os.path.dirname(os.path.abspath(__file__)))

CHECKS = {
 "C12": dict(cat="model_checking",
   text="Decision.tla defines the threshold by an exact integer inequality and the uniformity statistic through the real layer; TLC enumerates all palette multisets (model invariants + replay vectors) and validates recorded outputs of detect.Threshold for s up to 10^6 and detect.ThresholdQ on seeded long lists. Exhaustive on the model, exhaustive over s in thorough, sampled over lists. For ALL s the threshold predicate is proved monotone, true at t=s and false at t=-1 with TLAPS (DecisionProofs.tla, 47 obligations), so the threshold exists uniquely in 0..s.",
   ref="4 C12", note="trusts RealFn.class (Q(a,x) closed form), TLC, the Go harness; float results compared at 1e-12",
   tech="TLA+ spec (Decision/GenDecision) model-checked by TLC; TLAPS proofs of the threshold predicate; TLC-generated vectors replayed into Go; Go traces validated by TLC (TraceDecision)"),
}
CHECKS.update({
 "C07": dict(cat="model_checking",
   text="GenVerdict.tla enumerates every Q-histogram class (all partitions of s into <=10 bins) and every pass count for the three workflow kinds and model-checks the decision rule (critical value, verdict, named item); every emitted matrix is realised through stub runners and driven through the real FactoryDetect/PowerOnDetect/PeriodDetect; TLC validates each execution trace (TraceWorkflow). Exhaustive over matrix classes on the model, one real execution per class.",
   ref="4 C07", note="stub runners are installed through the exported registry randomness.TestMethodArr; trusts RealFn, TLC, the Go driver",
   tech="TLA+ spec (Decision/GenVerdict) model-checked by TLC; TLC-generated result matrices replayed through stub runners into the real workflows; execution traces validated by TLC (TraceWorkflow)"),
 "C08": dict(cat="model_checking",
   text="WorkflowFast.tla models the worker protocol (one action per critical section) and is checked exhaustively for W<=4, S<=5 with all short-read choices (safety + liveness under weak fairness; as-is defect switches must violate). The real Fast workflows are bound by TLC-validated traces of free-running executions with injected delays for NumCPU in {1,2,3,16}, of gated schedule families (barrier, straggler) and of replayed TLC-simulated behaviours (SimFast.tla: short-read sizes through the reader, sample completion order through gates), a sequential/parallel differential in stub and real-runner mode, and a -race build. Interleavings of the real code are sampled, not enumerated.",
   ref="4 C08", note="schedules of the real code are sampled; taskset controls NumCPU; race detector trusted for race freedom on the executions run",
   tech="TLA+ spec (WorkflowFast) model-checked by TLC incl. liveness; trace validation of free-running real executions (TraceWorkflow); sequential/parallel differential; go -race"),
})
CHECKS.update({
 "C09": dict(cat="fault_enumeration",
   text="Fault positions are exhaustive on Workflow.tla / WorkflowFast.tla at chunk granularity (every FailAt x with/without data x short reads x W<=3, safety + Terminates/WorkersExit). Against the real code the failure is injected through the caller's reader at dense byte offsets (first/last byte, every sample boundary +-1, random) x 5 failure kinds x all seven functions x NumCPU in {1,2,16}; TLC validates each execution (verdict false, error, no hang, no leaked goroutine).",
   ref="4 C09", note="hang = a full watchdog period without any Read/runner call, reproduced on a second execution; offsets are dense, not all 6.25M bytes",
   tech="TLA+ fault models (Workflow/WorkflowFast) model-checked by TLC incl. liveness; fault injection through the io.Reader replayed into the real workflows; traces validated by TLC (TraceWorkflow)"),
 "C10": dict(cat="model_checking",
   text="Every read-size history is explored on the models (each Read returns 1..requested chunks; 2-4 chunks per sample; W<=3), with the as-is single-Read and unlocked-ReadFull protocols as negative controls. Against the real code nine chunk policies (1-byte, primes, random, all-but-one, halves, bufio-like straddling) x seven functions x NumCPU in {1,2,3,16}; stub runners verify each judged buffer byte for byte against a self-describing stream; TLC validates each trace; chunked vs full-read differential.",
   ref="4 C10", note="policies sample the read-size histories at byte level; exhaustive only at chunk granularity on the model",
   tech="TLA+ read-history models (Workflow/WorkflowFast) model-checked by TLC; chunk policies replayed through the io.Reader into the real workflows; traces validated by TLC (TraceWorkflow)"),
})
STAT_NOTE = "trusts RealFn.class (erfc, Q(a,x), ln, exact longest-run probabilities), TLC, the Go driver; large inputs go through a Go spec proxy that is tied to the TLA+ definitions on every small vector of the same run"
STAT_TECH = "TLA+ executable definitions (Def) and implementation-shaped step machines (Alg) model-checked equal by TLC on every enumerated sequence; TLC-generated vectors with real-layer P/Q replayed into every Go entry point; large seeded inputs validated by TLC (TraceStats)"
CHECKS.update({
 "C01": dict(cat="model_checking", text="FreqTests.tla: Alg = Def model-checked on every bit sequence of 8..10 (thorough 12) bits for all five tests and parameters incl. byte fast paths; every such sequence plus mid-size generator sequences (100..20000 bits, 10 modes) replayed into all entry points against PQ(Def) at 1e-8; 10^6-bit (thorough 10^5..10^7) seeded inputs judged by TLC from proxy summaries.", ref="4 C01", note=STAT_NOTE, tech=STAT_TECH),
 "C02": dict(cat="model_checking", text="RunTests.tla: runs total exhaustive at 8..11 (13) bits; runs distribution and longest run through generator descriptors at 100..20000 bits incl. 6271/6272/6273 and long-run modes (Alg = Def checked by TLC on each), regime 3 at 749999/750000/10^6 bits via TLC-judged proxy summaries; class-probability tables checked against exact combinatorial probabilities (recurrence validated by brute force for m<=10).", ref="4 C02", note=STAT_NOTE, tech=STAT_TECH),
 "C03": dict(cat="model_checking", text="CorrTests.tla: binary derivative k in {3,7,15}, autocorrelation d in {1,2,8,16,32}, cumulative sums forward/backward; exhaustive at 8..11 (13) bits, generator sequences 100..20000 bits incl. extreme excursions, 10^6-bit inputs via TLC-judged summaries; series limits modelled with Go's truncating division.", ref="4 C03", note=STAT_NOTE + "; cusum series limits follow the truncating integer division of the reference implementations", tech=STAT_TECH),
 "C04": dict(cat="model_checking", text="AlgTests.tla: rowEchelon as written = log2|row space| for every matrix sequence at M=2,3(,4); Berlekamp-Massey as written with Go array bounds = brute-force least recurrence for every block of m=4..10(12) plus the InBounds invariant (negative control: CAP=m violates); 32x32 matrices of every rank and m=500/1000/5000 blocks of known complexity through TLC-validated lemmas; Maurer table machine = definitional distances; 10^6-bit inputs via independent proxies judged by TLC. Any panic of an entry point is a violation.", ref="4 C04", note=STAT_NOTE + "; rank/LC lemmas are checked by TLC only at small sizes", tech=STAT_TECH),
})
CHECKS.update({
 "C05": dict(cat="model_checking", text="Spectral.tla defines the spectrum of the zero-extended +-1 sequence exactly (60-digit cos/sin) and counts N1 over the first n/2-1 bins with an explicit undecided band of relative 1e-9 around the threshold; every bit sequence of 2..10 (12) bits and generator sequences up to 257 (512) bits (n just above a power of two, periodic, constant) are replayed against it; periodic words lifted to 2^10..2^20 bits by a TLC-checked lifting lemma; seeded inputs up to 10^6 bits through an independent FFT proxy judged by TLC.", ref="4 C05", note=STAT_NOTE + "; n > 512 relies on an independent float64 FFT in the driver, cross-checked on every small vector", tech=STAT_TECH),
 "C19": dict(cat="model_checking", text="The radix-2 FFT of fft.go is transcribed loop by loop over the cyclotomic integers and model-checked equal to the DFT definition on the impulse basis for N=2..64 (128) (complete by linearity; wrong twiddle indices are negative controls), Inverse inverts, lastPow2/ceilPow2 against their definitions for all N<=5000 and around every 2^k<=2^27. The real package is bound by exact spectra of integer inputs (N<=64), TLC-judged sampled bins of impulse/tone families up to 2^14 (2^20), inverse round trips, constructor limits and the wrong-length refusal.", ref="4 C19", note="transforms above 2^20 points are not executed; tolerance 1e-9*||x||; trusts RealFn cos/sin", tech="TLA+ exact-arithmetic model of the FFT (Spectral/GenSpectral) model-checked by TLC; TLC-generated spectra replayed into Go; recorded transforms validated by TLC (TraceSpectral)"),
})
CHECKS.update({
 "C06": dict(cat="exploration", text="The specification owns an independent definition of Q(a,x) for integer and half-integer shapes (closed finite form, 60 digits). TLC generates per-shape argument chains (switch-over lines x=1 and x=a to one ulp, bulk a+t sqrt a, both far tails) and judges the recorded outputs of the real Igamc for accuracy 1e-12+1e-14a, range, exact 1 at x<=0 and monotonicity; per-region coverage is measured. Dense grid exploration, not a proof of a bound: this is the property the technique fits worst.", ref="4 C06", note="trusted: RealFn closed form of Q(a,x) (axioms + mpmath); grid over 2a in 1..10000 (stride in quick, all in thorough) x 127 arguments", tech="TLA+ trace specification (TraceIgamc) with a Java real-number override; TLC-generated argument grid (GenIgamc) replayed into Go; recorded values validated by TLC"),
 "C11": dict(cat="model_checking", text="Single.tla: the m-selection and error rule is model-checked for every length 0..4200; TLC generates byte contents whose poker P is dialled across 0.01 and structured contents that one pattern length sees and another does not, with the expected verdict from the poker definition; a sweep over every length 0..4096 (stride in quick) with seeded contents is judged by TLC from pattern histograms; junk behind the requested bytes must never be requested.", ref="4 C11", note="contents with |P-0.01|<1e-9 accepted either way; trusts RealFn", tech="TLA+ spec (Single/GenSingle) model-checked by TLC; TLC-generated contents replayed into SingleDetect; length sweep validated by TLC (TraceSingle)"),
 "C14": dict(cat="model_checking", text="StuckAt.tla checks the composition argument on the model (<=64 distinct byte values per sample force poker m=8 below 0.01 for every period 1..64 and both sample sizes; a never-passing item forces a false verdict naming it). The real workflows are run end to end with the real runners on constant and periodic streams (all six workflow functions; the (00)^63 01 stream reaches the block on which the pinned commit crashed) and SingleDetect on 0x00../0xFF.. at every length; TLC validates rejection, error, termination.", ref="4 C14", note="periodic contents are sampled against the code; sequential Factory/PowerOn runs only in thorough", tech="TLA+ composition lemma (StuckAt) checked by TLC; degenerate streams replayed into the real workflows; traces validated by TLC (TraceWorkflow/TraceSingle)"),
})
CHECKS.update({
 "C15": dict(cat="model_checking", text="Registry.tla fixes the numbering, the runner defaults and the two rounds. Byte-aligned TLC vectors (every byte; generator sequences of 128..4096 (20000) bytes) go through the byte-oriented, bit-oriented and runner entry points and must be bit-identical and equal to the spec value; on 1121..125000-byte strings with special byte runs TLC judges bit for bit that runner i = Round15[i] = Round12[i] = entry point of test i at the standard's default and differs from neighbouring documented parameters; ReadGroup = byte expansion.", ref="4 C15", note="neighbour discrimination only where the parameters differ numerically on the input (counted)", tech="TLA+ spec (Registry) + TLC-generated byte-aligned vectors replayed into all entry points; registry passes validated by TLC (TraceRegistry)"),
 "C16": dict(cat="model_checking", text="Registry!ResultOK (finite, [0,1] up to 1e-9, P = 2 min(Q,1-Q) for the two-sided tests, Q = P for chi-square tests, Pass <=> P >= 0.01 with min(P1,P2) for the overlapping test) is judged by TLC on every result of all fifteen tests with every documented parameter and of the registry runners, on extreme descriptors (constant, alternating, single transition, one-hot, heavy bias, balanced halves, periodic) and seeded inputs from each test's minimum length to 10^6 (10^7) bits.", ref="4 C16", note="inputs are descriptor-generated, not enumerated; panics count as violations", tech="TLA+ result predicate (Registry!ResultOK) evaluated by TLC on traces recorded from the real tests (TraceRegistry)"),
})
CHECKS.update({
 "C17": dict(cat="model_checking", text="Symmetry.tla holds the table test x transformation -> relation and TLC checks every entry against the Def operators on all sequences of 8..10 (12) bits (every rotation amount, block rotation, complemented tail). Against the code, pairs (x, tau x) for every claimed entry x documented parameters: every rotation amount at n=100/128/131, sampled rotations, random block permutations and tail contents up to 10^6 bits; TLC judges the relation (same / Q -> 1-Q / ones<->zeros / forward<->backward) at 1e-9.", ref="4 C17", note="1e-9 covers float summation-order differences (1.5e-10 observed for ApEn at 10^6 bits)", tech="TLA+ relation table (SymmetryTable/Symmetry) model-checked against the definitions by TLC; transformed inputs replayed into Go; recorded pairs validated by TLC (TraceSymmetry)"),
 "C18": dict(cat="model_checking", text="Purity.tla models invocations as processes with read/write footprints (input, tables, private scratch) and TLC checks non-interference over all interleavings of 2-3 invocations, with shared scratch and input-writing as negative controls. TLC-generated plans (2..64 goroutines x any mix of the 15 runners and the two rounds, shared/private inputs, start barrier) are run free: results bit-identical to solitary results, inputs hashed, table probe; repeated in a -race build. Sequential side: History.tla models the package-level state an optimised implementation grows (retained buffer, memo, table derived in place) and TLC checks HistoryIndependent over every history of <=3 calls (three negative controls); each of the 258 histories is executed by a fresh process against all fifteen tests x documented parameters x bit/byte/runner entry points and every value must be bit-identical to the one a process obtains that makes only that call (TraceHistory). Per-call input purity, determinism, reverse-order and concurrent repetition are also checked in every C01-C05/C15 replay.", ref="4 C18", note="footprints are bound observationally (snapshots, bit identity, race detector); schedules sampled", tech="TLA+ footprint model (Purity) and call-history model (History) model-checked by TLC; TLC-generated concurrency plans and call histories replayed into Go (plain and -race; one fresh process per history); outcomes validated by TLC (TracePurity, TraceHistory)"),
})
CHECKS.update({
 "C13": dict(cat="model_checking", text="Detector.tla models the rddetector pipeline (walker, n workers, spawned senders, single writer, WaitGroup) and TLC checks termination and exactly-one-row-per-file over all interleavings for <=4 (5) files and <=3 workers (miscounted wg.Add as negative control); the accounting invariant (every file in exactly one place, WaitGroup = rows still to write) is discharged inductively by Apalache for 4 files/3 workers (6/4 in thorough), i.e. at unbounded depth. The real binary is run on generated directories (scale x file count x -n 1..64 x nested/.dat/extra files x GOMAXPROCS x report path); TLC validates each run: header structure (P/Q pairs naming the same test and parameter, every test of the scale), one row per sample file, column count, and every value against the library value the header names to 6 decimals; the 10^8-bit worker is driven directly on smaller files.", ref="4 C13", note="interleavings inside the separate process are not controlled; 10^8 scale at worker-function level on 10^5 (10^6)-bit files", tech="TLA+ pipeline model (Detector) model-checked by TLC incl. liveness; inductive invariant by Apalache (DetectorApa); report schema (Columns); runs of the real binary validated by TLC (TraceDetector)"),
 "C20": dict(cat="model_checking", text="Gen.tla models main and the writer goroutines over a file-system map and TLC checks termination, files exactly random0..random(s-1).bin complete in the requested directory and nothing elsewhere (ignoring -o as negative control); an inductive invariant is discharged by Apalache (GenApa.tla). The real rdgen binary runs in scratch directories for s x n x output path (default, relative, nested, absolute, pre-existing with stale files) x taskset/GOMAXPROCS with tree snapshots; TLC validates names, count, sizes, distinct contents, location; generated directories are handed to the real rddetector.", ref="4 C20", note="writer interleavings inside the process are not controlled", tech="TLA+ model (Gen) model-checked by TLC incl. liveness; inductive invariant by Apalache (GenApa); runs of the real binary validated by TLC (TraceGen)"),
})
PENDING = {}

def main():
    props = [json.loads(l) for l in open(os.path.join(VERIF, "properties.jsonl"))]
    checks = []
    na = []
    for p in props:
        pid = p["id"]
        if pid in CHECKS:
            c = CHECKS[pid]
            checks.append({
              "property_id": pid,
              "quick_cmd": "./check %s --tier quick" % pid,
              "thorough_cmd": "./check %s --tier thorough" % pid,
              "evidence_file": "/verif/evidence/%s.json" % pid,
              "replay_cmd_template": "./check %s --replay {path}" % pid,
              "engine": "tla-mbt",
              "level_claimed": {"category": c["cat"], "text": c["text"], "design_ref": c["ref"]},
              "level_note": c["note"],
              "technique": c["tech"],
            })
        else:
            na.append({"property_id": pid, "reason": PENDING.get(pid, "check not built yet in this round (planned: see DESIGN.md section 4 %s); no claim is made" % pid)})
    m = {
      "version": 1,
      "setup_cmd": "./setup.sh",
      "hooks": {"guard": "verif", "enable": "go build -tags verif (harness builds /repo through a replace directive with -tags verif)",
                "baseline_off_cmd": "cd /repo && go build ./... && go test -vet=off -count=1 -timeout 25m ./...",
                "source_commits": [], "add_only": True},
      "engines": [{"name": "tla-mbt", "path": "/verif/check", "serves_properties": sorted(CHECKS),
                   "kind_free_text": "explicit TLA+ specification (spec/*.tla) checked by TLC with a Java real-number override; bound to the Go code by replay of TLC-generated vectors/schedules and by TLC validation of traces recorded from the real code"}],
      "checks": checks,
      "not_applicable": na,
      "notes": "See DESIGN.md. exit 0 = held, 1 = VIOLATION (real-code behaviour contradicts the spec), 2 = infrastructure error (never a verdict).",
    }
    with open(os.path.join(VERIF, "MANIFEST.json"), "w") as fh:
        json.dump(m, fh, indent=1, ensure_ascii=False)
        fh.write("\n")

if __name__ == "__main__":
    main()
