#!/usr/bin/env python3
"""Rehearsal of seeded changes: confirm each candidate (demo passes clean, fails with the change, suite
still passes), run the property's check against a scratch worktree carrying the change (VERIF_REPO),
and file it under /verif/seeded/<id>/ with what caught it.

usage: lib/rehearse.py <candidate-dir> <prop> <k> [--checks C01,C15] [--skip-suite]
"""
import json, os, re, shutil, subprocess, sys, time
VERIF = os.path.dirname(os.path.dirname(os.path.abspath(__file__)))
ENV = dict(os.environ, GOFLAGS="-mod=mod", GOPROXY="off", GOSUMDB="off", GOTOOLCHAIN="local")


def sh(cmd, cwd=None, env=None, timeout=3000):
    p = subprocess.run(cmd, shell=True, cwd=cwd, env=env or ENV, capture_output=True, text=True, errors="replace", timeout=timeout)
    return p.returncode, (p.stdout + p.stderr)


def main():
    cand, prop, k = sys.argv[1], sys.argv[2], sys.argv[3]
    checks = [prop]
    skip_suite = "--skip-suite" in sys.argv
    race = False
    note = ""
    label = "%s-%s" % (prop, k)
    for i, a in enumerate(sys.argv):
        if a == "--checks":
            checks = sys.argv[i + 1].split(",")
        if a == "--note":
            note = sys.argv[i + 1]
        if a == "--label":
            label = sys.argv[i + 1]
    patch = os.path.join(cand, "patch%s.diff" % k)
    demo = os.path.join(cand, "demo%s_test.go" % k)
    meta = json.load(open(os.path.join(cand, "meta%s.json" % k)))
    src = open(demo).read()
    pm = re.search(r"^package\s+(\w+)", src, re.M)
    pkg = pm.group(1) if pm else "randomness_test"
    if pkg in ("randomness", "randomness_test"):
        loc = "."
    elif pkg in ("detect", "detect_test"):
        loc = "detect"
    elif pkg in ("fft", "fft_test"):
        loc = "fft"
    else:  # package main: one of the tools
        txt = json.dumps(meta)
        loc = "tools/rdgen" if "rdgen" in txt else "tools/rddetector"
    names = re.findall(r"^func (Test\w+)\(", src, re.M)
    runre = "^(" + "|".join(names) + ")$" if names else "Demo"
    wt = "/tmp/rehearse/wt_%s" % label
    shutil.rmtree(wt, ignore_errors=True)
    os.makedirs("/tmp/rehearse", exist_ok=True)
    rc, out = sh("git -C /repo worktree add -q --detach %s HEAD" % wt)
    if rc:
        print("worktree failed", out); sys.exit(2)
    res = {"property": prop, "k": k}
    try:
        dst = os.path.join(wt, loc, "zz_seeded_demo_test.go")
        shutil.copy(demo, dst)
        demo_cmd = meta.get("demo_command") or ""
        flags = "-race " if "-race" in demo_cmd else ""
        denv = dict(ENV)
        if "GOARCH=386" in demo_cmd:
            denv.update(GOARCH="386", CGO_ENABLED="0")   # the demonstration is for a platform whose int has 32 bits
        rc, out = sh("go test %s-vet=off -count=1 -run '%s' ./%s" % (flags, runre, loc), cwd=wt, env=denv)
        res["demo_clean_rc"] = rc
        res["demo_clean_tail"] = out[-400:]
        rc, out = sh("git apply %s" % patch, cwd=wt)
        if rc:
            res["apply_failed"] = out[-400:]
            print(json.dumps(res, indent=1)); return
        rc, out = sh("go build ./...", cwd=wt)
        res["build_rc"] = rc
        rc, out = sh("go test %s-vet=off -count=1 -run '%s' ./%s" % (flags, runre, loc), cwd=wt, env=denv)
        res["demo_patched_rc"] = rc
        res["demo_patched_tail"] = out[-600:]
        os.remove(dst)
        if not skip_suite:
            t0 = time.time()
            rc, out = sh("go test -vet=off -count=1 -timeout 25m ./...", cwd=wt)
            res["suite_rc"] = rc
            res["suite_s"] = round(time.time() - t0)
            res["suite_tail"] = out[-300:]
        sh("git checkout -- data/data.bin", cwd=wt)
        caught = {}
        for c in checks:
            t0 = time.time()
            rc, out = sh("./check %s --tier quick" % c, cwd=VERIF, env=dict(ENV, VERIF_REPO=wt, VERIF_SEED=os.environ.get("VERIF_SEED", "1")), timeout=6000)
            lines = [l for l in out.splitlines() if l.startswith(("VIOLATION", "  facts", "OK ", "ERROR", "KNOWN"))]
            caught[c] = {"rc": rc, "wall_s": round(time.time() - t0), "lines": lines[:4]}
            # the evidence file of this rehearsal run is not evidence for /repo: restore it from git if tracked
            sh("git checkout -- evidence/%s.json" % c, cwd=VERIF)
        res["checks"] = caught
    finally:
        sh("git -C /repo worktree remove --force %s" % wt)
        shutil.rmtree(wt, ignore_errors=True)
    ok = res.get("demo_clean_rc") == 0 and res.get("demo_patched_rc") not in (0, None) and res.get("build_rc") == 0 and (skip_suite or res.get("suite_rc") == 0)
    res["confirmed"] = bool(ok)
    if ok:
        sd = os.path.join(VERIF, "seeded", label)
        os.makedirs(sd, exist_ok=True)
        # a re-rehearsal after strengthening (--skip-suite) keeps what the first rehearsal of the identical patch established
        prev = {}
        try:
            if open(os.path.join(sd, "patch.diff")).read() == open(patch).read():
                prev = json.load(open(os.path.join(sd, "meta.json")))
        except (OSError, ValueError):
            prev = {}
        suite_ok = (not skip_suite) or bool(prev.get("confirmed", {}).get("existing_suite_passes_with_change"))
        shutil.copy(patch, os.path.join(sd, "patch.diff"))
        shutil.copy(demo, os.path.join(sd, "demo_test.go"))
        m = {"property": prop, "what": meta.get("what"), "needs": meta.get("needs"), "file_changed": meta.get("file_changed"),
             "demo_location": loc, "origin": "independent sub-agent given only the property text and a scratch worktree",
             "confirmed": {"demo_passes_on_clean_tree": True, "demo_fails_with_change": True, "builds": True,
                           "existing_suite_passes_with_change": suite_ok},
             "ran": ["go test -run Demo ./%s (clean, then patched)" % loc, "go build ./...", "go test -vet=off -count=1 ./... (patched)"] +
                    ["VERIF_REPO=<worktree with the change> ./check %s --tier quick" % c for c in checks],
             "caught_by": {c: (v["rc"] == 1) for c, v in res["checks"].items()},
             "check_output": res["checks"]}
        if prev.get("caught_by") and skip_suite:
            m["first_rehearsal"] = {"caught_by": prev.get("first_rehearsal", {}).get("caught_by", prev["caught_by"]),
                                    "check_output": prev.get("first_rehearsal", {}).get("check_output", {c: {k: v[k] for k in ("rc", "wall_s") if k in v} for c, v in prev.get("check_output", {}).items()})}
            for c, was in m["first_rehearsal"]["caught_by"].items():
                m["caught_by"].setdefault(c, was) if was else None
        if note:
            m["history"] = note
        elif prev.get("history"):
            m["history"] = prev["history"]
        json.dump(m, open(os.path.join(sd, "meta.json"), "w"), indent=1, ensure_ascii=False)
    print(json.dumps(res, indent=1, ensure_ascii=False))


main()
