#!/bin/sh
# Offline setup: compile the real-number override, parse every specification module, check the
# real-layer axioms with TLC and cross-check the primitives against committed mpmath vectors.
set -e
cd "$(dirname "$0")"
export GOFLAGS=-mod=mod GOPROXY=off GOSUMDB=off GOTOOLCHAIN=local
mkdir -p build evidence
javac -cp /opt/veriftools/tla/tla2tools.jar -d build spec/RealFn.java
python3 lib/setup_checks.py
